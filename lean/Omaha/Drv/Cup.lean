import Omaha.Drv.Util
import Omaha.Cup

namespace Omaha.Drv
open Omaha.Cup

def hexNat (s : String) : Option Nat :=
  (Hex.decode (s.toList.map fun c => UInt8.ofNat c.toNat)).map Der.beNat

/-- `id:X:Y,id:X:Y` (X, Y big-endian hex) -/
def parseKeys (tok : String) : Option (List (Nat × PubKey)) :=
  (tok.splitOn ",").mapM fun e =>
    match e.splitOn ":" with
    | [i, x, y] => do
      let i ← i.toNat?
      let x ← hexNat x
      let y ← hexNat y
      pure (i, (x, y))
    | _ => none

def showCupErr : CupErr → String
  | .etagHeaderMissing => "EtagHeaderMissing"
  | .etagNotString => "EtagNotString"
  | .etagMalformed => "EtagMalformed"
  | .requestHashMalformed => "RequestHashMalformed"
  | .requestHashMismatch => "RequestHashMismatch"
  | .signatureMalformed => "SignatureMalformed"
  | .keyIdMissing => "SpecifiedPublicKeyIdMissing"
  | .signatureError => "SignatureError"

/-- stream `cup` -/
def handleCup1 : List String → String
  | ["verify", keys, kid, nonce, req, resp, etag] =>
    match parseKeys keys, parseNat kid, parseBytes nonce, parseBytes req, parseBytes resp with
    | some keys, some kid, some nonce, some req, some resp =>
      let etag? : Option (Option Bytes) := if etag = "absent" then some none else (parseBytes etag).map some
      match etag? with
      | some e =>
        match verifyResponse Crypto.std keys req nonce e resp kid with
        | .ok sig => "ok " ++ showBytes sig
        | .error err => "err " ++ showCupErr err
      | none => "bad-op"
    | _, _, _, _, _ => "bad-op"
  | ["verifysig", keys, kid, nonce, req, resp, sig] =>
    match parseKeys keys, parseNat kid, parseBytes nonce, parseBytes req, parseBytes resp, parseBytes sig with
    | some keys, some kid, some nonce, some req, some resp, some sig =>
      match verifyWithSignature Crypto.std keys sig req resp kid nonce with
      | .ok () => "ok"
      | .error err => "err " ++ showCupErr err
    | _, _, _, _, _, _ => "bad-op"
  | ["etag", e] =>
    match parseBytes e with
    | some e => showBytes (stripEtag e)
    | none => "bad-op"
  | ["sha256", m] =>
    match parseBytes m with
    | some m => showBytes (Sha256.hash m)
    | none => "bad-op"
  | ["der", s] =>
    match parseBytes s with
    | some s => match Der.decodeSig s with
      | some _ => "ok"
      | none => "err"
    | none => "bad-op"
  | _ => "bad-op"

/-- `warm A B`: the implementation verifies A and then B on one handler instance; verification is a
function of its arguments (the model has no handler state to consult), so the answer is B's. -/
def handleCup : List String → String
  | "warm" :: rest => if rest.length = 14 then handleCup1 (rest.drop 7) else "bad-op"
  | l => handleCup1 l

end Omaha.Drv
