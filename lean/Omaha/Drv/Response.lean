import Omaha.Drv.Util
import Omaha.Response

namespace Omaha.Drv
open Omaha.Resp Omaha.JsonP

def optB : Option Bytes → String
  | none => "-"
  | some b => showBytes b

def optN : Option Nat → String
  | none => "-"
  | some n => toString n

def showStatus : Resp.Status → String
  | .ok => "ok" | .restricted => "restricted" | .noUpdate => "noupdate"
  | .error b => "E" ++ showBytes b

mutual
  /-- canonical rendering of an extension value (objects sorted, last duplicate wins, numbers
  other than u64 integers not compared) -/
  partial def showVal : Val → String
    | .null => "null"
    | .bool true => "true"
    | .bool false => "false"
    | .num (.uint n) => s!"u{n}"
    | .num (.other _) => "o"
    | .str b => "s" ++ showBytes b
    | .arr xs => "[" ++ ",".intercalate (xs.map showVal) ++ "]"
    | .obj kvs => showExtras (extrasOf [] kvs)
  partial def showExtras (x : Extras) : String :=
    "{" ++ "&".intercalate (x.map fun (k, v) => showBytes k ++ ":" ++ showVal v) ++ "}"
end

def paren (xs : List String) : String := "(" ++ "|".intercalate xs ++ ")"

def showPackage (p : Resp.Package) : String :=
  "{n=" ++ showBytes p.name ++ ",rq=" ++ (if p.required then "t" else "f") ++ ",sz=" ++ optN p.size
    ++ ",h=" ++ optB p.hash ++ ",h2=" ++ optB p.hashSha256 ++ ",fp=" ++ showBytes p.fp ++ ",x=" ++ showExtras p.extras ++ "}"

def showAction (a : Resp.Action) : String :=
  "{e=" ++ optB a.event ++ ",r=" ++ optB a.run ++ ",x=" ++ showExtras a.extras ++ "}"

def showManifest (m : Resp.Manifest) : String :=
  "{v=" ++ showBytes m.version ++ ",act=" ++ paren (m.actions.map showAction) ++ ",pk=" ++ paren (m.packages.map showPackage) ++ "}"

def showUc (u : Resp.UpdateCheck) : String :=
  "{st=" ++ showStatus u.status ++ ",info=" ++ optB u.info
    ++ ",urls=" ++ (match u.urls with | none => "-" | some us => paren (us.map showBytes))
    ++ ",man=" ++ (match u.manifest with | none => "-" | some m => showManifest m)
    ++ ",x=" ++ showExtras u.extras ++ ",full=" ++ paren (u.fullUrls.map showBytes) ++ "}"

def showApp (a : Resp.App) : String :=
  "id=" ++ showBytes a.id ++ ",st=" ++ showStatus a.status ++ ",c=" ++ optB a.cohort.id ++ ",h=" ++ optB a.cohort.hint
    ++ ",n=" ++ optB a.cohort.name
    ++ ",pg=" ++ (match a.ping with | none => "-" | some st => showStatus st)
    ++ ",ev=" ++ (match a.events with | none => "-" | some es => paren (es.map showStatus))
    ++ ",uc=" ++ (match a.updateCheck with | none => "-" | some u => showUc u)
    ++ ",mv=" ++ optB a.manifestVersion
    ++ ",x=" ++ showExtras a.extras

def showResponse (r : Resp.Response) : String :=
  "ok P=" ++ showBytes r.protocol ++ " S=" ++ optB r.server
    ++ " D=" ++ (match r.daystart with | none => "-" | some d => optN d.elapsedDays ++ "/" ++ optN d.elapsedSeconds)
    ++ " A=[" ++ ";".intercalate (r.apps.map showApp) ++ "]"

/-- stream `resp` -/
def handleResponse : List String → String
  | ["parse", b] =>
    match parseBytes b with
    | some raw =>
      match parseJsonResponse raw with
      | .ok r => showResponse r
      | .err => "err"
      | .outside => "outside-model"
    | none => "bad-op"
  -- documents nested 10^5 .. 10^6 deep, parsed by the implementation in a child process on a small
  -- stack: the model's parser is a total function (`parse_total`, Props/C16), so whatever the
  -- answer is, the parser comes back with one
  | ["deepparse", _, _, _] => "survives"
  | _ => "bad-op"

end Omaha.Drv
