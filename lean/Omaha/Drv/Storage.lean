/-
Line protocol for the `storage` stream: `storage run <op;op;…>` — the operations are applied to the
model's `Store` (writes go to `pending`, `commit` folds them into `committed`), every read prints what
the model's typed getters return, `state` prints `c<committed flag>n<number of visible keys>`.
-/
import Omaha.Drv.Util
import Omaha.SM.Model

namespace Omaha.Drv
open Omaha Omaha.SM

def getBoolS (s : Store) (k : Bytes) : Option Bool :=
  match s.get k with
  | some (.bool b) => some b
  | _ => none

def storageStep (s : Store) (op : String) : Option (Store × Option String) :=
  match op.splitOn ":" with
  | ["sets", k, v] => do pure (applyOp (.set (← parseBytes k) (.str (← parseBytes v))) s, none)
  | ["seti", k, v] => do pure (applyOp (.set (← parseBytes k) (.int (← parseInt v))) s, none)
  | ["setb", k, v] => do pure (applyOp (.set (← parseBytes k) (.bool (v = "1"))) s, none)
  | ["rm", k] => do pure (applyOp (.remove (← parseBytes k)) s, none)
  | ["commit"] => some (applyOp .commit s, none)
  | ["setoi", k, v] => do
    let k ← parseBytes k
    if v = "-" then pure (applyOp (.remove k) s, none) else pure (applyOp (.set k (.int (← parseInt v))) s, none)
  | ["sett", k, t] => do
    let k ← parseBytes k
    match Time.toMicros (← parseInt t) with
    | some m => pure (applyOp (.set k (.int m)) s, none)
    | none => pure (applyOp (.remove k) s, none)
  | ["gets", k] => do pure (s, some (match s.getString (← parseBytes k) with | some b => showBytes b | none => "-"))
  | ["geti", k] => do pure (s, some (match s.getInt (← parseBytes k) with | some i => toString i | none => "-"))
  | ["getb", k] => do pure (s, some (match getBoolS s (← parseBytes k) with | some b => (if b then "1" else "0") | none => "-"))
  | ["gett", k] => do pure (s, some (match s.getTime (← parseBytes k) with | some t => toString t | none => "-"))
  | ["state"] =>
    some (s, some s!"c{if s.pending.isEmpty then 1 else 0}n{(applyPending s.committed s.pending).length}")
  | _ => none

def handleStorage : List String → String
  | ["run", ops] =>
    let rec go (s : Store) (ops : List String) (acc : List String) : Option (List String) :=
      match ops with
      | [] => some acc.reverse
      | op :: rest =>
        match storageStep s op with
        | some (s', some o) => go s' rest (o :: acc)
        | some (s', none) => go s' rest acc
        | none => none
    match go {} (ops.splitOn ";") [] with
    | some outs => ",".intercalate outs
    | none => "bad-op"
  | _ => "bad-op"

end Omaha.Drv
