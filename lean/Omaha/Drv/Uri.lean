import Omaha.Drv.Util
import Omaha.Uri

namespace Omaha.Drv
open Omaha.Uri

/-- stream `uri` -/
def handleUri : List String → String
  | ["decorate", url, kid, nonce] =>
    match parseBytes url, parseNat kid, parseBytes nonce with
    | some url, some kid, some nonce =>
      match decorate url kid nonce with
      | .ok out => s!"ok {showBytes out} kid={kid} body=same"
      | .err => "err"
      | .outside => "outside-model"
    | _, _, _ => "bad-op"
  | _ => "bad-op"

end Omaha.Drv
