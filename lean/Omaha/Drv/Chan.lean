/-
Line protocol for the op-sequence cases of the `ctl` stream: `ctl seq <op;op;…>` with
  s<id>            a caller starts `start_update_check` (request <id>)
  e                the environment moves (a timer fires, an exchange completes); nothing for the channel
  h                every control handle is dropped
  d                the state machine is dropped
  p<id>:<r>,…      the machine is run until it blocks; it was seen to give these replies.  A request that is
                   still pending then, although the machine exists, is printed `unanswered` (the machine
                   polls its control channel at every point where it can block)
After every operation the statuses of all requests made so far are printed (`<id>=<status>`), the
operations are separated by `|`.
-/
import Omaha.Drv.Util
import Omaha.Chan

namespace Omaha.Drv
open Omaha Omaha.Chan Omaha.SM

def parseReply : String → Option Reply
  | "started" => some .started
  | "already" => some .alreadyRunning
  | "throttled" => some .throttled
  | _ => none

def showChanStatus : Option Status → String
  | some .pending => "pending"
  | some (.replied .started) => "started"
  | some (.replied .alreadyRunning) => "already"
  | some (.replied .throttled) => "throttled"
  | some .gone => "gone"
  | none => "unknown"

def parseObserved (t : String) : Option (List (Nat × Reply)) :=
  if t = "" then some [] else
  (t.splitOn ",").mapM fun item =>
    match item.splitOn ":" with
    | [i, r] => do pure (← parseNat i, ← parseReply r)
    | _ => none

/-- One operation of the script: the model operations it stands for, and whether the machine was run
to quiescence (after which nothing may be pending while it exists). -/
def chanOps (tok : String) : Option (List Op × Bool) :=
  match tok.toList with
  | 's' :: rest => do pure ([.send (← parseNat (String.ofList rest))], false)
  | ['e'] => some ([], false)
  | ['h'] => some ([.dropHandles], false)
  | ['d'] => some ([.dropMachine], false)
  | 'p' :: rest => do pure ((← parseObserved (String.ofList rest)).map (fun (i, r) => Op.reply i r), true)
  | _ => none

def showAll (s : St) (ids : List Nat) (drained : Bool) : String :=
  ",".intercalate (ids.map fun i =>
    let st := status s i
    s!"{i}={if drained && s.alive && st == some .pending then "unanswered" else showChanStatus st}")

def handleChan : List String → String
  | [script] =>
    let rec go (s : St) (ids : List Nat) (toks : List String) (acc : List String) : Option (List String) :=
      match toks with
      | [] => some acc.reverse
      | t :: rest =>
        match chanOps t with
        | none => none
        | some (ops, drained) =>
          let s' := ops.foldl step s
          let ids' := ids ++ sent ops
          go s' ids' rest (showAll s' ids' drained :: acc)
    match go {} [] (script.splitOn ";") [] with
    | some outs => "|".intercalate outs
    | none => "bad-op"
  | _ => "bad-op"

end Omaha.Drv
