/-
Line protocol for the mock-server stream (one request against a configured server):
  mock resp=<id~kind~ad~ver~coh~codebase~pkg;…> latest=<id>/<keyidx> hist=<id>/<keyidx>,… override=<hex|-> reqcup=<0|1>
       uri=<hex> apps=<id~ver~uc~coh~ev;…> client=<kid>/<keyidx>|- keys=<id:X:Y,…>|- reqbody=<hex> nonce=<hex> etag=<hex|->
-/
import Omaha.Drv.Cup
import Omaha.Drv.Response
import Omaha.Mock

namespace Omaha.Drv
open Omaha.Mock

def parseKind (t : String) : Option Kind :=
  if t = "noupdate" then some .noUpdate else if t = "update" then some .update else if t = "urgent" then some .urgentUpdate
  else if t = "invalid" then some .invalidResponse else if t = "invalidurl" then some .invalidURL else none

def optBytesTok (t : String) : Option (Option Bytes) := if t = "-" then some none else (parseBytes t).map some

def parseRespMeta (t : String) : Option (Bytes × RespMeta) :=
  match t.splitOn "~" with
  | [id, kind, ad, ver, coh, cb, pkg] => do
    pure (← parseBytes id, { kind := ← parseKind kind, assertDisabled := ad = "1", version := ← optBytesTok ver,
                             cohortAssertion := ← optBytesTok coh, codebase := ← parseBytes cb, packageName := ← parseBytes pkg })
  | _ => none

def parseReqApp (t : String) : Option ReqApp :=
  match t.splitOn "~" with
  | [id, ver, uc, coh, ev] => do
    pure { id := ← parseBytes id, version := ← parseBytes ver,
           updateCheck := if uc = "-" then none else some (uc = "1"),
           cohort := ← optBytesTok coh, hasEvent := ev = "1" }
  | _ => none

def parseIdIdx (t : String) : Option (Nat × Nat) :=
  match t.splitOn "/" with
  | [a, b] => do pure (← a.toNat?, ← b.toNat?)
  | _ => none

def argOf (toks : List String) (k : String) : Option String :=
  toks.findSome? fun t => if t.startsWith (k ++ "=") then some (t.drop (k.length + 1)).toString else none

def listTok {α} (sep : String) (f : String → Option α) (t : String) : Option (List α) :=
  if t = "-" ∨ t = "" then some [] else (t.splitOn sep).mapM f

def showCupRes : Except Cup.CupErr Bytes → String
  | .ok _ => "ok"
  | .error e => "err:" ++ showCupErr e

/-- stream `mock` -/
def handleMock (toks : List String) : String :=
  let r : Option String := do
    let resp ← (argOf toks "resp").bind (listTok ";" parseRespMeta)
    let latest ← (argOf toks "latest").bind parseIdIdx
    let hist ← (argOf toks "hist").bind (listTok "," parseIdIdx)
    let override ← (argOf toks "override").bind optBytesTok
    let reqcup := (argOf toks "reqcup") == some "1"
    let uri ← (argOf toks "uri").bind parseBytes
    let apps ← (argOf toks "apps").bind (listTok ";" parseReqApp)
    -- `prev=`: the server was started with these responses and then reconfigured to `resp`
    let prev : Option (List (Bytes × RespMeta)) := (argOf toks "prev").bind (listTok ";" parseRespMeta)
    let cfg : Cfg := match prev with
      | some p => setResponses { responses := p, latest := latest.1, historical := hist.map (·.1), etagOverride := override, requireCup := reqcup } resp
      | none => { responses := resp, latest := latest.1, historical := hist.map (·.1), etagOverride := override, requireCup := reqcup }
    let keyIdxOf (id : Nat) : Option Nat := if latest.1 = id then some latest.2 else (hist.find? (·.1 = id)).map (·.2)
    match handle cfg uri apps with
    | .status500 => pure "status500"
    | .panic => pure "panic"
    | .ok body ov induced =>
      let etagTok := match ov, induced with
        | some o, _ => "override:" ++ showBytes o
        | none, .signed _ _ => "signed"
        | none, _ => "none"
      let parse := match appVals cfg apps with
        | some vs => (match Resp.decodeWrapper (responseVal vs) with
          | .ok r => showResponse r
          | .err => "err"
          | .outside => "outside-model")
        | none => "err"
      let client ← argOf toks "client"
      if client = "-" then
        pure s!"ok body={showBytes body} etag={etagTok} verify=- other=- lean=- parse={parse}"
      else
        let (kid, kc) ← parseIdIdx client
        let keys ← (argOf toks "keys").bind parseKeys
        let reqbody ← (argOf toks "reqbody").bind parseBytes
        let nonce ← (argOf toks "nonce").bind parseBytes
        let etag ← (argOf toks "etag").bind optBytesTok
        let lean := Cup.verifyResponse Cup.Crypto.std keys reqbody nonce etag body kid
        let (spec, other) : String × String := match ov, induced with
          | some _, _ => (showCupRes lean, "-")
          | none, .signed id _ =>
            if keyIdxOf id = some kc then ("ok", "err:SignatureError,err:SignatureError,err:RequestHashMismatch")
            else ("err:SignatureError", "-")
          | none, _ => ("err:EtagHeaderMissing", "-")
        pure s!"ok body={showBytes body} etag={etagTok} verify={spec} other={other} lean={showCupRes lean} parse={parse}"
  r.getD "bad-op"

end Omaha.Drv
