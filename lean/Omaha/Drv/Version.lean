import Omaha.Drv.Util
import Omaha.Version

namespace Omaha.Drv

def showVersion (v : Version) : String := s!"{v.a}.{v.b}.{v.c}.{v.d}"

def showOrd : Ordering → String
  | .lt => "lt" | .eq => "eq" | .gt => "gt"

/-- stream `version` -/
def handleVersion : List String → String
  | ["parse", s] =>
    match parseBytes s with
    | some b => match Version.parse b with
      | some v => "ok " ++ showVersion v
      | none => "err"
    | none => "bad-op"
  | ["jsonde", s] =>
    match parseBytes s with
    | some b => match Version.parse b with
      | some v => "ok " ++ showVersion v
      | none => "err"
    | none => "bad-op"
  | ["print", a, b, c, d] =>
    match parseNat a, parseNat b, parseNat c, parseNat d with
    | some a, some b, some c, some d => showBytes (Version.print ⟨a, b, c, d⟩)
    | _, _, _, _ => "bad-op"
  | ["json", a, b, c, d] =>
    match parseNat a, parseNat b, parseNat c, parseNat d with
    | some a, some b, some c, some d => showBytes (Version.toJsonText ⟨a, b, c, d⟩)
    | _, _, _, _ => "bad-op"
  | ["cmp", a, b, c, d, e, f, g, h] =>
    match parseNat a, parseNat b, parseNat c, parseNat d, parseNat e, parseNat f, parseNat g, parseNat h with
    | some a, some b, some c, some d, some e, some f, some g, some h =>
      showOrd (Version.cmp ⟨a, b, c, d⟩ ⟨e, f, g, h⟩) ++
        (if (⟨a, b, c, d⟩ : Version) = ⟨e, f, g, h⟩ then " eq" else " ne")
    | _, _, _, _, _, _, _, _ => "bad-op"
  | "ofarr" :: xs =>
    match xs.mapM parseNat with
    | some ns => match Version.ofList ns with
      | some v => if ns.isEmpty then "bad-op" else "ok " ++ showVersion v
      | none => "bad-op"
    | none => "bad-op"
  | _ => "bad-op"

end Omaha.Drv
