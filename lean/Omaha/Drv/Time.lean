import Omaha.Drv.Util
import Omaha.Time

namespace Omaha.Drv
open Omaha.Time

def parsePCT : List String → Option PCT
  | ["wall", w, _] => (parseInt w).map PCT.wall
  | ["mono", _, m] => (parseInt m).map PCT.mono
  | ["complex", w, m] => do let w ← parseInt w; let m ← parseInt m; pure (.complex ⟨w, m⟩)
  | _ => none

def showPCT : Option PCT → String
  | none => "panic"
  | some (.wall w) => s!"wall {w}"
  | some (.mono m) => s!"mono {m}"
  | some (.complex c) => s!"complex {c.wall} {c.mono}"

def showCT : Option CT → String
  | none => "panic"
  | some c => s!"{c.wall} {c.mono}"

/-- stream `time` -/
def handleTime : List String → String
  | ["to_micros", t] => match parseInt t with
    | some t => showOptInt (toMicros t)
    | none => "bad-op"
  | ["from_micros", m] => match parseInt m with
    | some m => s!"{fromMicros m}"
    | none => "bad-op"
  | ["roundtrip", m] => match parseInt m with
    | some m => showOptInt (toMicros (fromMicros m))
    | none => "bad-op"
  | ["truncate", t] => match parseInt t with
    | some t => s!"{truncateSubMicro t}"
    | none => "bad-op"
  | ["store", t] => match parseInt t with
    | some t => showOptInt (storeReload t)
    | none => "bad-op"
  | ["pct_add", k, w, m, d] => match parsePCT [k, w, m], parseNat d with
    | some p, some d => showPCT (p.add d)
    | _, _ => "bad-op"
  | ["pct_sub", k, w, m, d] => match parsePCT [k, w, m], parseNat d with
    | some p, some d => showPCT (p.sub d)
    | _, _ => "bad-op"
  | ["ct_add", w, m, d] => match parseInt w, parseInt m, parseNat d with
    | some w, some m, some d => showCT ((CT.mk w m).add d)
    | _, _, _ => "bad-op"
  | ["ct_sub", w, m, d] => match parseInt w, parseInt m, parseNat d with
    | some w, some m, some d => showCT ((CT.mk w m).sub d)
    | _, _, _ => "bad-op"
  | ["complete", k, w, m, cw, cm] => match parsePCT [k, w, m], parseInt cw, parseInt cm with
    | some p, some cw, some cm => showCT (some (p.completeWith ⟨cw, cm⟩))
    | _, _, _ => "bad-op"
  | ["destructure", k, w, m] => match parsePCT [k, w, m] with
    | some p => showOptInt p.destructure.1 ++ " " ++ showOptInt p.destructure.2
    | none => "bad-op"
  | ["pct_to_micros", k, w, m] => match parsePCT [k, w, m] with
    | some p => showOptInt p.toMicros
    | none => "bad-op"
  | ["after", w, m, k, ow, om] => match parseInt w, parseInt m, parsePCT [k, ow, om] with
    | some w, some m, some p => toString ((CT.mk w m).isAfterOrEqAny p)
    | _, _, _ => "bad-op"
  | _ => "bad-op"

end Omaha.Drv
