import Omaha.Drv.Util
import Omaha.Request

namespace Omaha.Drv
open Omaha.Request

def optTok (f : String → Option α) (t : String) : Option (Option α) :=
  if t = "-" then some none else (f t).map some

def parseVersionTok (t : String) : Option Version :=
  match (t.splitOn ".").mapM String.toNat? with
  | some [a, b, c, d] => some ⟨a, b, c, d⟩
  | _ => none

def parseExtras (t : String) : Option (List (Bytes × Bytes)) :=
  if t = "-" then some [] else
  (t.splitOn "&").mapM fun kv =>
    match kv.splitOn "=" with
    | [k, v] => do pure (← parseBytes k, ← parseBytes v)
    | _ => none

/-- `id|a.b.c.d|fp|cohort|hint|name|uc|extras` -/
def parseApp (t : String) : Option App :=
  match t.splitOn "|" with
  | [id, ver, fp, c, h, n, uc, ex] => do
    pure { id := ← parseBytes id, version := ← parseVersionTok ver, fp := ← optTok parseBytes fp,
           cohort := { id := ← optTok parseBytes c, hint := ← optTok parseBytes h, name := ← optTok parseBytes n },
           userCounting := ← optTok String.toNat? uc, extras := ← parseExtras ex }
  | _ => none

/-- `type/result/err/prev/next/dl` -/
def parseEvent (t : String) : Option Event :=
  match t.splitOn "/" with
  | [ty, re, er, pv, nv, dl] => do
    pure { eventType := ← ty.toNat?, eventResult := ← re.toNat?, errorcode := ← optTok String.toInt? er,
           previousVersion := ← optTok parseBytes pv, nextVersion := ← optTok parseBytes nv,
           downloadTimeMs := ← optTok String.toNat? dl }
  | _ => none

def parseOp (t : String) : Option Op :=
  match t.splitOn ":" with
  | ["uc", a] => (parseApp a).map .updateCheck
  | ["pg", a] => (parseApp a).map .ping
  | ["ev", a, e] => do pure (.event (← parseApp a) (← parseEvent e))
  | ["rid", g] => (parseBytes g).map .requestId
  | ["sid", g] => (parseBytes g).map .sessionId
  | _ => none

def parseOps (t : String) : Option (List Op) :=
  if t = "-" then some [] else (t.splitOn ";").mapM parseOp

/-- `name,a.b.c.d,platform,osver,sp,arch,url` -/
def parseConfig (t : String) : Option Config :=
  match t.splitOn "," with
  | [n, v, p, ov, sp, ar, url] => do
    pure { updaterName := ← parseBytes n, updaterVersion := ← parseVersionTok v,
           os := { platform := ← parseBytes p, version := ← parseBytes ov, sp := ← parseBytes sp, arch := ← parseBytes ar },
           serviceUrl := ← parseBytes url }
  | _ => none

/-- `od|st:disable:same` -/
def parseParams (t : String) : Option RequestParams :=
  match t.splitOn ":" with
  | [s, d, sv] =>
    let src := if s = "od" then some InstallSource.onDemand else if s = "st" then some .scheduledTask else none
    src.map fun src => { source := src, disableUpdates := d = "1", offerUpdateIfSameVersion := sv = "1" }
  | _ => none

def showWire : Option Wire → String
  | none => "err"
  | some w => "hdrs " ++ ",".intercalate (w.headers.map fun (k, v) => k.toLower ++ "=" ++ showBytes v)
      ++ " body " ++ showBytes w.body

/-- stream `wire-req`: `build <cfg> <params> <ops1> <ops2>` → first build, (second build of the
same builder is the harness's business), build after continuing with ops2. -/
def handleRequest : List String → String
  | ["build", cfg, params, ops1, ops2] =>
    match parseConfig cfg, parseParams params, parseOps ops1, parseOps ops2 with
    | some cfg, some params, some ops1, some ops2 =>
      let b1 := (Builder.mk params [] none none).applyAll ops1
      let b2 := b1.applyAll ops2
      showWire (build cfg b1) ++ " | " ++ showWire (build cfg b2)
    | _, _, _, _ => "bad-op"
  | _ => "bad-op"

end Omaha.Drv
