/-
Line protocol for the state-machine stream: one case = one unit of work, given with its complete
start state and environment answers; the answer is the unit's trace (lines joined by tabs)
followed by the end-of-unit state.
-/
import Omaha.Drv.Util
import Omaha.Drv.Request
import Omaha.Drv.Response
import Omaha.SM.Run

namespace Omaha.Drv
open Omaha.SM

/-! ### Rendering -/

def showSrc : InstallSource → String
  | .onDemand => "od" | .scheduledTask => "st"

def showPct : Time.PCT → String
  | .wall w => s!"W{w}" | .mono m => s!"M{m}" | .complex c => s!"C{c.wall},{c.mono}"

def showOptPct : Option Time.PCT → String
  | none => "-" | some p => showPct p

def showTiming (t : Timing) : String :=
  showPct t.time ++ (match t.minWait with | some d => s!"+{d}" | none => "")

def showSched (s : Schedule) : String :=
  s!"lut={showOptPct s.lastUpdate} lct={showOptPct s.lastCheck} next={match s.next with | some t => showTiming t | none => "-"}"

def showProto (p : Proto) : String :=
  s!"poll={optN p.poll} fails={p.failures} proxied={p.proxied}"

def showVer (v : Version) : String := s!"{v.a}.{v.b}.{v.c}.{v.d}"

def showAppState (a : App) : String :=
  s!"{showBytes a.id}|{showVer a.version}|{optB a.fp}|{optB a.cohort.id}|{optB a.cohort.hint}|{optB a.cohort.name}|{optN a.userCounting}"

def showApps (apps : List App) : String :=
  if apps.isEmpty then "-" else ";".intercalate (apps.map showAppState)

def showParams (p : RequestParams) : String :=
  s!"{showSrc p.source}:{if p.disableUpdates then 1 else 0}:{if p.offerUpdateIfSameVersion then 1 else 0}"

def showDecision : CheckDecision → String
  | .ok p => s!"ok({showParams p})" | .okUpdateDeferred p => s!"okdeferred({showParams p})"
  | .tooSoon => "toosoon" | .throttled => "throttled" | .denied => "denied"

def showUpdDecision : UpdateDecision → String
  | .ok => "ok" | .deferred => "deferred" | .denied => "denied"

def showState : State → String
  | .idle => "idle" | .checking .onDemand => "checking-od" | .checking .scheduledTask => "checking-st"
  | .errorChecking => "error" | .noUpdate => "noupdate" | .deferred => "deferred" | .installing => "installing"
  | .waitingForReboot => "waitreboot" | .installationError => "insterror"

def showReqErr : ReqErr → String
  | .json => "req-json" | .httpBuilder => "req-httpbuilder" | .cupDecoration => "req-cupdecoration"
  | .cupValidation => "req-cupvalidation" | .transport => "req-transport" | .status => "req-status"

def showCheckErr : CheckErr → String
  | .omahaRequest e => showReqErr e | .responseParser => "parser" | .installPlan => "plan"

def showAppAction : AppAction → String
  | .noUpdate => "noupdate" | .deferredByPolicy => "deferred" | .deniedByPolicy => "denied"
  | .installError => "insterror" | .updated => "updated"

def showAppResp (r : AppResp) : String :=
  s!"{showBytes r.id}|{optB r.cohort.id}|{optB r.cohort.hint}|{optB r.cohort.name}|{optN r.userCounting}|{showAppAction r.result}"

def showEventRec (e : Omaha.Event) : String :=
  s!"{e.eventType}/{e.eventResult}/{match e.errorcode with | some c => toString c | none => "-"}/{optB e.previousVersion}/{optB e.nextVersion}/{optN e.downloadTimeMs}"

def showWireApp (a : WireApp) : String :=
  s!"{showBytes a.id}|{showVer a.version}|{optB a.fp}|{optB a.cohort.id}|{optB a.cohort.hint}|{optB a.cohort.name}|uc={match a.updateCheck with | some (d, s) => s!"{if d then 1 else 0}:{if s then 1 else 0}" | none => "-"}|ping={match a.ping with | none => "-" | some none => "none" | some (some n) => toString n}|ev={if a.events.isEmpty then "-" else ",".intercalate (a.events.map showEventRec)}"

def showKind : ReqKind → String
  | .updateCheck => "uc" | .eventReport => "ev" | .ping => "ping"

def showOutcome : HttpOutcome → String
  | .fail .user _ => "fail:u" | .fail .transport _ => "fail:t" | .fail .timeout _ => "fail:o"
  | .response st _ _ auth _ => s!"resp:{st}:{if auth then 1 else 0}"

def showDraw (pfx : String) : Option Nat → String
  | none => "-" | some n => s!"{pfx}{n}"

def showSVal : SVal → String
  | .str b => "s" ++ showBytes b | .int i => s!"i{i}" | .bool b => if b then "b1" else "b0"

def showStoreOp : StoreOp → String
  | .set k v => s!"set {showBytes k} {showSVal v}" | .remove k => s!"remove {showBytes k}" | .commit => "commit"

def showAppResult : AppResult → String
  | .installed => "i" | .deferred => "d" | .failed m => s!"f{m}"

def showMetric : Metric → String
  | .responseTime ns ok => s!"responsetime {ns} {ok}"
  | .checkInterval ns mono src => s!"interval {ns} {if mono then "mono" else "wall"} {showSrc src}"
  | .successfulUpdateDuration ns => s!"updok {ns}"
  | .successfulUpdateFromFirstSeen ns => s!"firstseen {ns}"
  | .failedUpdateDuration ns => s!"updfail {ns}"
  | .failureReason r => s!"reason {r}"
  | .requestsPerCheck n ok => s!"reqspercheck {n} {ok}"
  | .attemptsToSuccessfulCheck n => s!"attemptscheck {n}"
  | .attemptsToSuccessfulInstall n ok => s!"attemptsinstall {n} {ok}"
  | .waitedForReboot ns => s!"waitedreboot {ns}"
  | .eventLost e => s!"eventlost {showEventRec e}"

def showReply : Reply → String
  | .started => "started" | .alreadyRunning => "already" | .throttled => "throttled"

def showSMAction : SM.Action → Option String
  | .event (.state s) => some s!"E state {showState s}"
  | .event (.schedule s) => some s!"E sched {showSched s}"
  | .event (.protocol p) => some s!"E proto {showProto p}"
  | .event (.result (.ok rs)) => some s!"E result ok {if rs.isEmpty then "-" else ";".intercalate (rs.map showAppResp)}"
  | .event (.result (.error e)) => some s!"E result err {showCheckErr e}"
  | .event (.progress k) => some s!"E progress {k}"
  | .event (.serverResponse r) => some s!"E response {showResponse r}"
  | .event (.installerError m) => some s!"E insterr {m}"
  | .policyNext apps s p t => some s!"P next apps={showApps apps} {showSched s} {showProto p} -> {showTiming t}"
  | .policyAllowed apps s p o d => some s!"P allowed apps={showApps apps} {showSched s} {showProto p} opts={showSrc o} -> {showDecision d}"
  | .policyCanStart n d => some s!"P canstart plan={n} -> {showUpdDecision d}"
  | .policyRebootAllowed o b => some s!"P rebootallowed opts={showSrc o} -> {b}"
  | .policyRebootNeeded n b => some s!"P rebootneeded plan={n} -> {b}"
  | .http r o => some s!"H {showKind r.kind} src={showSrc r.source} sid={showDraw "G" r.sessionDraw} rid={showDraw "G" r.requestDraw} nonce={showDraw "N" r.nonceDraw} apps=[{";".intercalate (r.apps.map showWireApp)}] -> {showOutcome o}"
  | .buildError _ _ => none
  | .timerArm (.for_ ns) => some s!"T arm for:{ns}"
  | .timerArm (.until_ t) => some s!"T arm until:{showPct t}"
  | .timerFire i => some s!"T fire {i}"
  | .plan src m a => some s!"I plan src={showSrc src} meta={if m then "ok" else "none"} -> {match a with | some n => toString n | none => "err"}"
  | .install n ps rs => some s!"I install plan={n} progress=[{",".intercalate (ps.map toString)}] results=[{",".intercalate (rs.map showAppResult)}]"
  | .reboot ok => some s!"I reboot -> {if ok then "ok" else "err"}"
  | .storage op ok => some s!"S {showStoreOp op} -> {if ok then "ok" else "err"}"
  | .metric m => some s!"M {showMetric m}"
  | .reply id r => some s!"R {id} {showReply r}"

/-- Replace draw tokens `G<n>` / `N<n>` by dense indices in order of first appearance. -/
def canonDraws (pfx : Char) (lines : List String) : List String :=
  let step (st : List (String × Nat) × List String) (line : String) : List (String × Nat) × List String :=
    let toks := line.splitOn " "
    let (seen, out) := toks.foldl (fun (acc : List (String × Nat) × List String) tok =>
      let (seen, out) := acc
      match tok.splitOn "=" with
      | [k, v] =>
        if v.length ≥ 2 ∧ v.front = pfx ∧ (v.drop 1).toString.toNat?.isSome then
          match seen.find? (·.1 = v) with
          | some (_, i) => (seen, out ++ [s!"{k}={pfx}{i}"])
          | none => (seen ++ [(v, seen.length)], out ++ [s!"{k}={pfx}{seen.length}"])
        else (seen, out ++ [tok])
      | _ => (seen, out ++ [tok])) (st.1, [])
    (seen, st.2 ++ [" ".intercalate out])
  (lines.foldl step ([], [])).2

/-! ### Scenario parsing -/

def tokMap (toks : List String) : List (String × String) :=
  toks.filterMap fun t =>
    match t.splitOn "=" with
    | k :: rest => if rest.isEmpty then none else some (k, "=".intercalate rest)
    | _ => none

def getTok (m : List (String × String)) (k : String) : Option String := (m.find? (·.1 = k)).map (·.2)

def parseClock (t : String) : Option Clock :=
  match t.splitOn "," with
  | [a, b] => do pure ⟨← a.toInt?, ← b.toInt?⟩
  | _ => none

def parsePCTTok (t : String) : Option Time.PCT :=
  match t.toList with
  | 'W' :: r => (String.ofList r).toInt?.map Time.PCT.wall
  | 'M' :: r => (String.ofList r).toInt?.map Time.PCT.mono
  | 'C' :: r =>
    match (String.ofList r).splitOn "," with
    | [a, b] => do pure (.complex ⟨← a.toInt?, ← b.toInt?⟩)
    | _ => none
  | _ => none

def parseTimingTok (t : String) : Option Timing :=
  match t.splitOn "+" with
  | [p] => (parsePCTTok p).map fun p => ⟨p, none⟩
  | [p, d] => do pure ⟨← parsePCTTok p, some (← d.toNat?)⟩
  | _ => none

def optField {α} (f : String → Option α) (t : String) : Option (Option α) :=
  if t = "-" then some none else (f t).map some

def listField {α} (sep : String) (f : String → Option α) (t : String) : Option (List α) :=
  if t = "-" ∨ t = "" then some [] else (t.splitOn sep).mapM f

/-- `id|a.b.c.d|fp|cohort|hint|name|uc` -/
def parseAppState (t : String) : Option App :=
  match t.splitOn "|" with
  | [id, ver, fp, c, h, n, uc] => do
    pure { id := ← parseBytes id, version := ← parseVersionTok ver, fp := ← optField parseBytes fp,
           cohort := { id := ← optField parseBytes c, hint := ← optField parseBytes h, name := ← optField parseBytes n },
           userCounting := ← optField String.toNat? uc }
  | _ => none

def parseSrc (t : String) : Option InstallSource :=
  if t = "od" then some .onDemand else if t = "st" then some .scheduledTask else none

def parseDecision (t : String) : Option CheckDecision :=
  if t = "toosoon" then some .tooSoon else if t = "throttled" then some .throttled
  else if t = "denied" then some .denied
  else if t.startsWith "ok(" then (parseParams ((t.drop 3).dropEnd 1).toString).map .ok
  else if t.startsWith "okdeferred(" then (parseParams ((t.drop 11).dropEnd 1).toString).map .okUpdateDeferred
  else none

def parseOutcome (t : String) : Option HttpOutcome :=
  match t.splitOn ":" with
  | ["f", k, dt] => do
    let kind ← if k = "u" then some ErrKind.user else if k = "t" then some .transport else if k = "o" then some .timeout else none
    pure (.fail kind (← parseClock dt))
  | ["r", st, ra, body, auth, dt] => do
    pure (.response (← st.toNat?) (← optField parseBytes ra) (← parseBytes body) (auth = "1") (← parseClock dt))
  | _ => none

def parseSVal (t : String) : Option SVal :=
  match t.toList with
  | 's' :: r => (parseBytes (String.ofList r)).map .str
  | 'i' :: r => (String.ofList r).toInt?.map .int
  | ['b', '1'] => some (.bool true)
  | ['b', '0'] => some (.bool false)
  | _ => none

def parseAssoc {β} (f : String → Option β) (t : String) : Option (List (Bytes × β)) :=
  listField "," (fun kv => match kv.splitOn ":" with
    | [k, v] => do pure (← parseBytes k, ← f v)
    | _ => none) t

def parseStep (t : String) : Option WaitStep :=
  match t.toList with
  | 'f' :: r => (String.ofList r).toNat?.map .fire
  | 'c' :: r =>
    match (String.ofList r).splitOn ":" with
    | [id, src] => do pure (.ctl (← id.toNat?) (← parseSrc src))
    | _ => none
  | _ => none

def parseAppResult (t : String) : Option AppResult :=
  match t.toList with
  | ['i'] => some .installed
  | ['d'] => some .deferred
  | 'f' :: r => (String.ofList r).toNat?.map .failed
  | _ => none

structure Scenario where
  mode : String
  world : World
  presets : List App
  rs : RunState
  unit : UnitEnv

def parseScenario (toks : List String) : Option Scenario := do
  let m := tokMap toks
  let g := getTok m
  let mode ← g "mode"
  let cfg : Config := { updaterName := ← (g "name").bind parseBytes, updaterVersion := ← (g "uver").bind parseVersionTok,
                        os := { platform := [], version := ← (g "osver").bind parseBytes, sp := [], arch := [] },
                        serviceUrl := ← (g "url").bind parseBytes }
  let cup ← (g "cup").bind (optField String.toNat?)
  let sys ← (g "sys").bind parseBytes
  let apps ← (g "apps").bind (listField ";" parseAppState)
  let sched : Schedule := { lastUpdate := ← (g "lut").bind (optField parsePCTTok), lastCheck := ← (g "lct").bind (optField parsePCTTok),
                            next := ← (g "nxt").bind (optField parseTimingTok) }
  let proto : Proto := { poll := ← (g "poll").bind (optField String.toNat?), failures := ← (g "fails").bind String.toNat?,
                         proxied := ← (g "proxied").bind String.toNat? }
  let pend ← (g "pend").bind (parseAssoc (optField parseSVal))
  let comm ← (g "comm").bind (parseAssoc parseSVal)
  let clk ← (g "clk").bind parseClock
  let rs : RunState ← match (← g "rs").splitOn ":" with
    | [sm, fin, sh] => do pure (⟨← sm.toInt?, ← optField String.toInt? fin, sh = "1"⟩ : RunState)
    | _ => none
  let env : Env := {
    httpUC := ← (g "uc").bind (listField ";" parseOutcome),
    httpEV := ← (g "ev").bind (listField ";" parseOutcome),
    httpPing := ← (g "pg").bind (listField ";" parseOutcome),
    plan := ← (g "plan").bind (fun t => if t = "err" then some none else t.toNat?.map some),
    canStart := ← (g "canstart").bind (fun t => if t = "ok" then some .ok else if t = "deferred" then some .deferred else if t = "denied" then some .denied else none),
    progress := ← (g "progress").bind (listField "," String.toNat?),
    results := ← (g "results").bind (listField "," parseAppResult),
    installDt := ← (g "instdt").bind parseClock,
    rebootNeeded := (g "rebootneeded") == some "1",
    storeFail := ← (g "sfail").bind (listField "," fun t => some (decide (t = "1"))),
    jitter := ← (g "jit").bind (listField "," String.toInt?),
    backoffDt := ← (g "bdt").bind (listField ";" parseClock) }
  let unit : UnitEnv := {
    next := ← (g "next").bind parseTimingTok,
    wake := ← (g "wake").bind (listField "," parseStep),
    wakeDt := ← (g "wakedt").bind parseClock,
    allow := ← (g "allow").bind parseDecision,
    env := env,
    during := ← (g "during").bind (listField "," fun t => match t.splitOn ":" with
      | [id, src] => do pure (← id.toNat?, ← parseSrc src)
      | _ => none),
    rebootAllowed := ← (g "rallow").bind (listField "," fun t => some (decide (t = "1"))),
    rebootNext := ← (g "rnext").bind (listField ";" parseTimingTok),
    rebootSteps := ← (g "rsteps").bind (listField ";" fun t => match t.splitOn "@" with
      | [st, dt] => do pure (← parseStep st, ← parseClock dt)
      | _ => none),
    rebootOk := (g "rebootok") != some "0" }
  let world : World := { cfg := cfg, cup := cup, ctx := ⟨sched, proto⟩, apps := apps, sysApp := sys,
                         store := ⟨pend, comm⟩, clock := clk }
  pure ⟨mode, world, apps, rs, unit⟩

def sortAssoc {β} (l : List (Bytes × β)) : List (Bytes × β) :=
  l.foldl (fun acc kv =>
    let rec ins : List (Bytes × β) → List (Bytes × β)
      | [] => [kv]
      | x :: rest => if compare kv.1 x.1 = .lt then kv :: x :: rest else x :: ins rest
    ins acc) []

def showStoreState (s : Store) : String :=
  let pend := (sortAssoc (s.pending.foldl (fun acc kv => if acc.any (·.1 = kv.1) then acc else acc ++ [kv]) [])).map
    fun (k, v) => s!"{showBytes k}:{match v with | some x => showSVal x | none => "-"}"
  let comm := (sortAssoc s.committed).map fun (k, v) => s!"{showBytes k}:{showSVal v}"
  s!"pend={if pend.isEmpty then "-" else ",".intercalate pend} comm={if comm.isEmpty then "-" else ",".intercalate comm}"

def showEnd (res : UnitResult) (w : World) : String :=
  -- the in-memory context is only observable through the next policy call; a unit that ends
  -- blocked has none
  s!"Z {match res with | .completed => "completed" | .stalled => "stalled" | .outside => "outside"} {if res = .stalled then "?" else showSched w.ctx.sched ++ " " ++ showProto w.ctx.st} apps={showApps w.apps} {showStoreState w.store} clk={w.clock.wall},{w.clock.mono}"

/-- Replies are compared per request, not by position: they are listed after the other lines,
ordered by request id. -/
def renderTrace (w : World) : List String :=
  let acts := w.trace.reverse
  let main := acts.filter fun a => match a with | .reply _ _ => false | _ => true
  let replies := acts.filterMap fun a => match a with | .reply id r => some (id, r) | _ => none
  let sorted := replies.foldl (fun acc x =>
    let rec ins : List (Nat × Reply) → List (Nat × Reply)
      | [] => [x]
      | y :: rest => if x.1 < y.1 then x :: y :: rest else y :: ins rest
    ins acc) []
  canonDraws 'N' (canonDraws 'G' (main.filterMap showSMAction)) ++ sorted.map fun (id, r) =>
    -- ids from 900000 on are requests whose caller gave up after sending: the reply goes nowhere
    if id ≥ 900000 then s!"R {id} abandoned" else s!"R {id} {showReply r}"

/-- stream `sm` -/
def handleSM (toks : List String) : String :=
  match parseScenario toks with
  | none => "bad-op"
  | some sc =>
    if sc.mode = "oneshot" then
      match build sc.world.cfg sc.world.cup sc.presets sc.world.sysApp ⟨[], sc.world.store.committed⟩ sc.world.clock sc.world with
      | none => "outside-model"
      | some w =>
        let (res, w) := oneshot sc.unit.env w
        if res = .outside then "outside-model"
        else "\t".intercalate (renderTrace w ++ [showEnd res w])
    else if sc.mode = "start" then
      match build sc.world.cfg sc.world.cup sc.presets sc.world.sysApp ⟨[], sc.world.store.committed⟩ sc.world.clock sc.world with
      | none => "outside-model"
      | some w =>
        match runStart w with
        | none => "Z notstarted"
        | some rs =>
          let (res, _, w) := runUnit sc.unit rs w
          if res = .outside then "outside-model"
          else "\t".intercalate (renderTrace w ++ [showEnd res w])
    else if sc.mode = "run" then
      let (res, _, w) := runUnit sc.unit sc.rs sc.world
      if res = .outside then "outside-model"
      else "\t".intercalate (renderTrace w ++ [showEnd res w])
    else "bad-op"

end Omaha.Drv
