/-
Line protocol for the generator stream:
  gen prog=y1,ya2.3,sw,ew0,drop,ret7 sched=p,p,f0,p
answer: one observation per schedule step, separated by spaces:
  pending/w0/t0  item:1/w1/t0  complete:7/w0/t0  none/w0/t1  fired/w1
-/
import Omaha.Drv.Util
import Omaha.Gen

namespace Omaha.Drv
open Omaha.Gen

def parseGenOp (t : String) : Option Op :=
  if t = "sw" then some .selfWake
  else if t = "drop" then some .dropHandle
  else if t.startsWith "ya" then
    let r := (t.drop 2).toString
    if r = "" then some (.yieldAll []) else (r.splitOn ".").mapM String.toNat? |>.map .yieldAll
  else if t.startsWith "y" then (t.drop 1).toString.toNat?.map .yield
  else if t.startsWith "ew" then (t.drop 2).toString.toNat?.map .extWait
  else if t.startsWith "ret" then (t.drop 3).toString.toNat?.map .ret
  else none

def parseSchedStep (t : String) : Option Step :=
  if t = "p" then some .poll
  else if t.startsWith "f" then (t.drop 1).toString.toNat?.map .fire
  else none

def showPollResult : PollResult → String
  | .pending => "pending" | .item x => s!"item:{x}" | .complete r => s!"complete:{r}" | .none => "none"

def b01 (b : Bool) : String := if b then "1" else "0"

def showObs : Obs → String
  | .polled r w t => s!"{showPollResult r}/w{b01 w}/t{b01 t}"
  | .fired w => s!"fired/w{b01 w}"

def genListArg (pfx : String) (f : String → Option α) (tok : String) : Option (List α) :=
  if tok.startsWith pfx then
    let r := (tok.drop pfx.length).toString
    if r = "" then some [] else (r.splitOn ",").mapM f
  else none

/-- stream `gen` -/
def handleGen : List String → String
  | [p, s] =>
    match genListArg "prog=" parseGenOp p, genListArg "sched=" parseSchedStep s with
    | some prog, some sched => " ".intercalate ((drive (init prog) sched).map showObs)
    | _, _ => "bad-op"
  | _ => "bad-op"

end Omaha.Drv
