/-
Helpers for the line protocol of the model driver (I/O only; nothing here is used by a theorem).
-/
import Omaha.Basic.Bytes

namespace Omaha.Drv

/-- Bytes arguments are written `x<hex>` so that the empty string is the token `x`. -/
def parseBytes (tok : String) : Option Bytes :=
  match tok.toList with
  | 'x' :: rest => Hex.decode (rest.map fun c => UInt8.ofNat c.toNat)
  | _ => none

def showBytes (b : Bytes) : String := "x" ++ Bytes.toAsciiString (Hex.encode b)

def parseNat (tok : String) : Option Nat := tok.toNat?

def parseInt (tok : String) : Option Int := tok.toInt?

def words (line : String) : List String :=
  (line.trimAscii.toString.splitOn " ").filter (· ≠ "")

def showOptNat : Option Nat → String
  | none => "none"
  | some n => s!"some {n}"

def showOptInt : Option Int → String
  | none => "none"
  | some n => s!"some {n}"

end Omaha.Drv
