#!/bin/sh
# MANIFEST.setup_cmd: build the Lean library + model driver and the Rust harness, offline.
set -e
cd "$(dirname "$0")"
export CARGO_NET_OFFLINE=true
mkdir -p work replays evidence
( cd lean && lake build )
[ -f harness/Cargo.lock ] || cp /repo/Cargo.lock harness/Cargo.lock
( cd harness && cargo build --release --offline )
echo "setup ok"
