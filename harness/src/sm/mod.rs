//! Scripted environment for the real state machine: every trait object the library talks to is
//! implemented here on top of one shared `Hub` that (a) logs each call as a trace line in the
//! format of the Lean driver, (b) answers from the current unit's queues, (c) holds the clock,
//! the storage (pending + committed) and the timers, and (d) gates the futures the executor
//! wants to control (HTTP exchanges and timers).

use crate::out::hexb;
use crate::streams::time::{dur, mono, mono_ns, wall, wall_ns};
use futures::future::{BoxFuture, LocalBoxFuture};
use futures::FutureExt;
use omaha_client::app_set::AppSet;
use omaha_client::common::{App, CheckOptions, CheckTiming, ProtocolState, UpdateCheckSchedule, UserCounting};
use omaha_client::cup_ecdsa::RequestMetadata;
use omaha_client::http_request::{mock_errors, Error as HttpError, HttpRequest};
use omaha_client::installer::{AppInstallResult, Installer, Plan, ProgressObserver};
use omaha_client::metrics::{ClockType, Metrics, MetricsReporter, UpdateCheckFailureReason};
use omaha_client::policy::{CheckDecision, PolicyEngine, UpdateDecision};
use omaha_client::protocol::request::InstallSource;
use omaha_client::protocol::response::Response;
use omaha_client::request_builder::RequestParams;
use omaha_client::storage::Storage;
use omaha_client::time::{ComplexTime, PartialComplexTime, TimeSource, Timer};
use std::collections::{BTreeMap, BTreeSet, VecDeque};
use std::future::Future;
use std::pin::Pin;
use std::sync::{Arc, Mutex};
use std::task::{Context, Poll, Waker};
use std::time::{Duration, Instant, SystemTime};

pub mod exec;

// ---------------------------------------------------------------------------------------------
// answers

#[derive(Clone, Debug)]
pub enum HttpOutcome {
    Fail { kind: char, dw: i128, dm: i128 },
    Resp { status: u16, retry_after: Option<Vec<u8>>, body: Vec<u8>, authentic: bool, forgery: u8, dw: i128, dm: i128 },
}

impl HttpOutcome {
    pub fn tok(&self) -> String {
        match self {
            HttpOutcome::Fail { kind, dw, dm } => format!("f:{}:{},{}", kind, dw, dm),
            HttpOutcome::Resp { status, retry_after, body, authentic, dw, dm, .. } => format!(
                "r:{}:{}:{}:{}:{},{}", status, retry_after.as_ref().map(|r| hexb(r)).unwrap_or("-".into()),
                hexb(body), *authentic as u8, dw, dm),
        }
    }
    pub fn short(&self) -> String {
        match self {
            HttpOutcome::Fail { kind, .. } => format!("fail:{}", kind),
            HttpOutcome::Resp { status, authentic, .. } => format!("resp:{}:{}", status, *authentic as u8),
        }
    }
}

#[derive(Clone, Debug, PartialEq)]
pub enum AppRes { Installed, Deferred, Failed(u32) }

#[derive(Clone, Debug)]
pub enum Step { Fire(usize), Ctl(usize, bool),
    /// from ONE handle instance: a request whose future is dropped after its first poll (id1 ≥ 900000: nobody waits for the
    /// reply), then at once a second request (id2) that is awaited — it arrives while the first is being served
    CtlPair(usize, bool, usize, bool),
    /// last step of an outer wait whose timers all fire together: a request that arrives before the machine runs again, so
    /// that the wait's `select!` finds both of its branches ready (either may win; the harness reads off which one did)
    Race(usize, bool),
    /// reboot wait: timer `i` fires and a scheduled-source request `id` arrives before the machine runs again (two branches of
    /// the wait's `select!` ready at once; whichever is taken first, both are served and the trace is the same)
    FireCtl(usize, usize),
    /// two requests at the outer wait before the machine runs again: the first (id, source) ends the wait; the second stays
    /// queued — answered during the check if the first one starts a check, taken at the next wait if it is refused
    Ctl2(usize, bool, usize, bool),
    /// the request that ends this wait is already in the channel (the second one of the previous unit's `Ctl2`)
    CtlQueued(usize, bool) }

#[derive(Clone, Debug, Default)]
pub struct UnitEnv {
    pub next: String,                    // timing token
    pub wake: Vec<Step>,
    /// the timers of `wake` fire together: all of them are released before the machine is polled again
    pub burst: bool,
    pub wakedt: (i128, i128),
    pub allow: String,                   // decision token
    pub uc: VecDeque<HttpOutcome>,
    pub ev: VecDeque<HttpOutcome>,
    pub pg: VecDeque<HttpOutcome>,
    pub plan: Option<u32>,
    pub canstart: String,
    pub progress: Vec<u32>,
    pub results: Vec<AppRes>,
    pub instdt: (i128, i128),
    pub rebootneeded: bool,
    pub sfail: VecDeque<bool>,
    pub bdt: VecDeque<(i128, i128)>,
    pub during: Vec<(usize, bool)>,
    /// the requests of `during` arrive while this HTTP exchange of the check (0-based) is in flight
    pub during_at: usize,
    pub rallow: VecDeque<bool>,
    pub rnext: VecDeque<String>,
    pub rsteps: VecDeque<(Step, (i128, i128))>,
    pub rebootok: bool,
}

// ---------------------------------------------------------------------------------------------
// hub

#[derive(Clone, Debug, PartialEq)]
pub enum SVal { Str(Vec<u8>), Int(i64), Bool(bool) }

impl SVal {
    pub fn tok(&self) -> String {
        match self { SVal::Str(s) => format!("s{}", hexb(s)), SVal::Int(i) => format!("i{}", i), SVal::Bool(b) => format!("b{}", *b as u8) }
    }
}

pub struct Hub {
    pub trace: Vec<String>,
    pub wall: i128,
    pub mono: i128,
    pub env: UnitEnv,
    pub pending: BTreeMap<Vec<u8>, Option<SVal>>,
    pub committed: BTreeMap<Vec<u8>, SVal>,
    // gates
    pub released: BTreeSet<usize>,
    pub next_gate: usize,
    pub http_waiting: Option<usize>,           // gate id of an HTTP exchange in flight
    pub timers: Vec<usize>,                    // gate id per timer arm index of the unit
    /// per gate: the waker of its most recent poll (what a real timer / socket keeps); a release wakes that one only
    pub wakers: Vec<(usize, Waker)>,
    // phase tracking
    pub in_check: bool,
    /// the harness itself (as the embedder) holds one of the shared locks right now
    pub embedder_lock: bool,
    pub backoffs_in_check: u32,
    pub jitters: Vec<i128>,
    pub cup_sign: Option<(u64, usize)>,        // key id, signing key index (for authentic responses)
    pub last_uc_request: Option<(Vec<u8>, String)>, // body, uri of the last update-check request seen
    pub last_etag_sig: Option<Vec<u8>>,
    pub last_resp_body: Option<Vec<u8>>,
    pub old_etags: Vec<String>,
    pub boundary: Option<Snapshot>,
    pub dropped_timers: Vec<usize>,
    pub reboot_phase: bool,
    pub keys: Vec<(u64, usize)>,               // key ids registered with the client's CUP handler
    // units of the history: environments generated up front, boundaries as they are reached
    pub units: VecDeque<UnitEnv>,
    pub boundaries: Vec<Snapshot>,
    pub jit_log: Vec<Vec<i128>>,
    /// storage failures are drawn per transaction (all its writes fail or none; its commit fails or not): the order of the
    /// writes inside a transaction then has no influence on which of them fail.  What each operation got is recorded.
    /// perturbation (implementation only): while a back-off wait of a check is pending the embedder changes an app in the shared
    /// app set, and puts the old value back when the retry reaches the HTTP client — the check works on the snapshot it took
    /// at its start, so nothing may show
    pub mutate_backoff: bool,
    pub mutated_apps: Option<Vec<App>>,
    pub tx_fail: Option<(bool, bool)>,
    pub sfail_obs: Vec<bool>,
    pub sfail_log: Vec<Vec<bool>>,
    pub during_done: bool,
    pub http_seen: usize,
    pub during_log: Vec<bool>,
    pub mock: Option<MockHook>,
}

/// The in-process mock Omaha server standing in for the scripted HTTP outcomes (stream `smmock`).
pub struct MockHook {
    pub server: Arc<tokio::sync::Mutex<mock_omaha_server::OmahaServer>>,
    /// what the harness expects of the client's verifier, from the two key configurations alone
    pub auth: bool,
    /// the exchanges of the current unit, as scripted outcomes would have been written: (kind, outcome)
    pub log: Vec<(String, HttpOutcome)>,
    /// every exchange of the history: origin-form URI, request body, what the server did
    pub exchanges: Vec<(String, Vec<u8>, MockReply)>,
}

pub enum MockReply { Panic, Error, Reply { status: u16, etag: Option<Vec<u8>>, body: Vec<u8> } }

#[derive(Clone, Debug)]
pub struct Snapshot {
    pub pending: BTreeMap<Vec<u8>, Option<SVal>>,
    pub committed: BTreeMap<Vec<u8>, SVal>,
    pub wall: i128,
    pub mono: i128,
    pub trace_len: usize,
}

pub type H = Arc<Mutex<Hub>>;

impl Hub {
    pub fn new(wall: i128, mono: i128) -> Hub {
        Hub { trace: vec![], wall, mono, env: UnitEnv::default(), pending: BTreeMap::new(), committed: BTreeMap::new(),
            released: BTreeSet::new(), next_gate: 0, http_waiting: None, timers: vec![], wakers: vec![], in_check: false, embedder_lock: false,
            backoffs_in_check: 0, jitters: vec![], cup_sign: None, last_uc_request: None, last_etag_sig: None, last_resp_body: None,
            old_etags: vec![], boundary: None, dropped_timers: vec![], reboot_phase: false, keys: vec![], units: VecDeque::new(), boundaries: vec![], jit_log: vec![], mutate_backoff: false, mutated_apps: None, tx_fail: None, sfail_obs: vec![], sfail_log: vec![], during_done: false, http_seen: 0, during_log: vec![], mock: None }
    }
    pub fn log(&mut self, s: String) { self.trace.push(s); }
    pub fn boundary_phase_reboot(&self) -> bool { self.reboot_phase }
    pub fn tick(&mut self, d: (i128, i128)) { self.wall += d.0; self.mono += d.1; }
    pub fn snapshot(&self) -> Snapshot {
        Snapshot { pending: self.pending.clone(), committed: self.committed.clone(), wall: self.wall, mono: self.mono, trace_len: self.trace.len() }
    }
    /// The current unit is over: record the boundary and switch to the next unit's environment.
    pub fn advance_unit(&mut self) {
        let s = self.snapshot();
        self.boundaries.push(s);
        let j = std::mem::take(&mut self.jitters);
        self.jit_log.push(j);
        let f = std::mem::take(&mut self.sfail_obs);
        self.sfail_log.push(f);
        self.env = self.units.pop_front().unwrap_or(UnitEnv { next: "M0".into(), allow: "toosoon".into(), ..UnitEnv::default() });
        self.reboot_phase = false;
        self.in_check = false;
        self.during_log.push(self.during_done);
        self.during_done = false;
        self.http_seen = 0;
        self.timers.clear();
    }
    pub fn new_gate(&mut self) -> usize { let g = self.next_gate; self.next_gate += 1; g }
    pub fn release(&mut self, g: usize) {
        self.released.insert(g);
        let mut mine = vec![];
        self.wakers.retain(|(id, w)| if *id == g { mine.push(w.clone()); false } else { true });
        for w in mine { w.wake(); }
    }
    pub fn store_tok(&self) -> String {
        let p: Vec<String> = self.pending.iter().map(|(k, v)| format!("{}:{}", hexb(k), v.as_ref().map(|x| x.tok()).unwrap_or("-".into()))).collect();
        let c: Vec<String> = self.committed.iter().map(|(k, v)| format!("{}:{}", hexb(k), v.tok())).collect();
        format!("pend={} comm={}", if p.is_empty() { "-".into() } else { p.join(",") }, if c.is_empty() { "-".into() } else { c.join(",") })
    }
}

pub struct Gate { hub: H, id: usize }

impl Future for Gate {
    type Output = ();
    fn poll(self: Pin<&mut Self>, cx: &mut Context<'_>) -> Poll<()> {
        let mut h = self.hub.lock().unwrap();
        if h.released.contains(&self.id) { Poll::Ready(()) } else { let id = self.id; h.wakers.retain(|(j, _)| *j != id); h.wakers.push((id, cx.waker().clone())); Poll::Pending }
    }
}

// ---------------------------------------------------------------------------------------------
// rendering helpers (formats of lean/Omaha/Drv/SM.lean)

pub fn src_tok(s: InstallSource) -> &'static str { if s == InstallSource::OnDemand { "od" } else { "st" } }

pub fn pct_tok(p: &PartialComplexTime) -> String {
    match p {
        PartialComplexTime::Wall(w) => format!("W{}", wall_ns(*w)),
        PartialComplexTime::Monotonic(m) => format!("M{}", mono_ns(*m)),
        PartialComplexTime::Complex(c) => format!("C{},{}", wall_ns(c.wall), mono_ns(c.mono)),
    }
}

pub fn timing_tok(t: &CheckTiming) -> String {
    format!("{}{}", pct_tok(&t.time), t.minimum_wait.map(|d| format!("+{}", d.as_nanos())).unwrap_or_default())
}

pub fn parse_pct(t: &str) -> PartialComplexTime {
    let (k, r) = t.split_at(1);
    match k {
        "W" => PartialComplexTime::Wall(wall(r.parse().unwrap()).unwrap()),
        "M" => PartialComplexTime::Monotonic(mono(r.parse().unwrap()).unwrap()),
        _ => { let p: Vec<&str> = r.split(',').collect(); PartialComplexTime::Complex(ComplexTime { wall: wall(p[0].parse().unwrap()).unwrap(), mono: mono(p[1].parse().unwrap()).unwrap() }) }
    }
}

pub fn parse_timing(t: &str) -> CheckTiming {
    let parts: Vec<&str> = t.split('+').collect();
    let time = parse_pct(parts[0]);
    match parts.get(1) {
        Some(d) => CheckTiming::builder().time(time).minimum_wait(dur(d.parse().unwrap()).unwrap()).build(),
        None => CheckTiming::builder().time(time).build(),
    }
}

pub fn sched_tok(s: &UpdateCheckSchedule) -> String {
    let o = |p: &Option<PartialComplexTime>| p.as_ref().map(pct_tok).unwrap_or("-".into());
    format!("lut={} lct={} next={}", o(&s.last_update_time), o(&s.last_update_check_time), s.next_update_time.as_ref().map(timing_tok).unwrap_or("-".into()))
}

pub fn proto_tok(p: &ProtocolState) -> String {
    format!("poll={} fails={} proxied={}", p.server_dictated_poll_interval.map(|d| d.as_nanos().to_string()).unwrap_or("-".into()),
        p.consecutive_failed_update_checks, p.consecutive_proxied_requests)
}

fn opt_hex(o: &Option<String>) -> String { o.as_ref().map(|s| hexb(s.as_bytes())).unwrap_or("-".into()) }

pub fn app_state_tok(a: &App) -> String {
    let UserCounting::ClientRegulatedByDate(uc) = a.user_counting.clone();
    format!("{}|{}|{}|{}|{}|{}|{}", hexb(a.id.as_bytes()), a.version, opt_hex(&a.fingerprint), opt_hex(&a.cohort.id), opt_hex(&a.cohort.hint),
        opt_hex(&a.cohort.name), uc.map(|n| n.to_string()).unwrap_or("-".into()))
}

pub fn apps_tok(apps: &[App]) -> String {
    if apps.is_empty() { "-".into() } else { apps.iter().map(app_state_tok).collect::<Vec<_>>().join(";") }
}

pub fn params_tok(p: &RequestParams) -> String {
    format!("{}:{}:{}", src_tok(p.source), p.disable_updates as u8, p.offer_update_if_same_version as u8)
}

pub fn parse_params(t: &str) -> RequestParams {
    let p: Vec<&str> = t.split(':').collect();
    RequestParams { source: if p[0] == "od" { InstallSource::OnDemand } else { InstallSource::ScheduledTask }, use_configured_proxies: true,
        disable_updates: p[1] == "1", offer_update_if_same_version: p[2] == "1" }
}

pub fn parse_decision(t: &str) -> CheckDecision {
    match t {
        "toosoon" => CheckDecision::TooSoon, "throttled" => CheckDecision::ThrottledByPolicy, "denied" => CheckDecision::DeniedByPolicy,
        _ if t.starts_with("ok(") => CheckDecision::Ok(parse_params(&t[3..t.len() - 1])),
        _ => CheckDecision::OkUpdateDeferred(parse_params(&t[11..t.len() - 1])),
    }
}

// ---------------------------------------------------------------------------------------------
// time source and timer

#[derive(Clone)]
pub struct HTime(pub H);

impl TimeSource for HTime {
    fn now_in_walltime(&self) -> SystemTime { wall(self.0.lock().unwrap().wall).unwrap() }
    fn now_in_monotonic(&self) -> Instant { mono(self.0.lock().unwrap().mono).unwrap() }
    fn now(&self) -> ComplexTime { let h = self.0.lock().unwrap(); ComplexTime { wall: wall(h.wall).unwrap(), mono: mono(h.mono).unwrap() } }
}

pub struct HTimer(pub H);

impl HTimer {
    fn arm(&mut self, desc: String, for_ms: Option<u128>) -> BoxFuture<'static, ()> {
        let mut h = self.0.lock().unwrap();
        h.log(format!("T arm {}", desc));
        let g = h.new_gate();
        h.timers.push(g);
        if h.in_check {
            // a back-off wait inside the attempt loop: observed jitter, then fires by itself
            if let Some(ms) = for_ms {
                h.backoffs_in_check += 1;
                let base = (1i128 << (h.backoffs_in_check - 1)) * 1000 - 500;
                h.jitters.push(ms as i128 - base);
            }
            let dt = h.env.bdt.pop_front().unwrap_or((0, 0));
            h.tick(dt);
            h.released.insert(g);
            if h.mutate_backoff && h.mutated_apps.is_none() && for_ms.is_some() {
                LOCKS.with(|l| if let Some((_, a)) = &*l.borrow() { if let Some(mut set) = a.try_lock() {
                    h.mutated_apps = Some(set.apps.clone());
                    for app in set.apps.iter_mut() {
                        app.cohort.hint = Some("changed-by-the-embedder".into());
                        app.version = omaha_client::version::Version::from([9, 9, 9, 1]);
                    }
                } });
            }
        }
        drop(h);
        Gate { hub: self.0.clone(), id: g }.boxed()
    }
}

impl Timer for HTimer {
    fn wait_until(&mut self, time: impl Into<PartialComplexTime>) -> BoxFuture<'static, ()> {
        let t: PartialComplexTime = time.into();
        self.arm(format!("until:{}", pct_tok(&t)), None)
    }
    fn wait_for(&mut self, duration: Duration) -> BoxFuture<'static, ()> {
        self.arm(format!("for:{}", duration.as_nanos()), Some(duration.as_millis()))
    }
}

// ---------------------------------------------------------------------------------------------
// policy

thread_local! {
    /// the two locks the embedder shares with the machine (set by the stream that builds the machine)
    pub static LOCKS: std::cell::RefCell<Option<(std::rc::Rc<futures::lock::Mutex<HStorage>>, std::rc::Rc<futures::lock::Mutex<HAppSet>>)>> = std::cell::RefCell::new(None);
}

/// Called where the machine hands control to the environment for an awaited operation (a policy question, an HTTP exchange,
/// an installer call): an environment that takes a shared lock there (a policy that looks at the app set, an installer that
/// writes to storage) would wait for ever if the machine still held it.
pub fn probe_locks(h: &mut Hub, at: &str) {
    if h.embedder_lock { return; }
    LOCKS.with(|l| {
        if let Some((s, a)) = &*l.borrow() {
            let sh = s.try_lock().is_none();
            let ah = a.try_lock().is_none();
            if sh || ah { h.log(format!("L held storage={} appset={} at {}", sh as u8, ah as u8, at)); }
        }
    });
}

pub struct HPolicy { pub hub: H, pub time: HTime }

impl PolicyEngine for HPolicy {
    type TimeSource = HTime;
    type InstallResult = ();
    type InstallPlan = HPlan;

    fn time_source(&self) -> &HTime { &self.time }

    fn compute_next_update_time<'a>(&'a mut self, apps: &'a [App], scheduling: &'a UpdateCheckSchedule, protocol_state: &'a ProtocolState) -> BoxFuture<'a, CheckTiming> {
        let mut h = self.hub.lock().unwrap();
        probe_locks(&mut h, "P next");
        let tok = if h.boundary_phase_reboot() { h.env.rnext.pop_front().unwrap_or_else(|| "M0".into()) } else { h.env.next.clone() };
        h.log(format!("P next apps={} {} {} -> {}", apps_tok(apps), sched_tok(scheduling), proto_tok(protocol_state), tok));
        futures::future::ready(parse_timing(&tok)).boxed()
    }

    fn update_check_allowed<'a>(&'a mut self, apps: &'a [App], scheduling: &'a UpdateCheckSchedule, protocol_state: &'a ProtocolState, check_options: &'a CheckOptions) -> BoxFuture<'a, CheckDecision> {
        let mut h = self.hub.lock().unwrap();
        probe_locks(&mut h, "P allowed");
        let tok = h.env.allow.clone();
        h.log(format!("P allowed apps={} {} {} opts={} -> {}", apps_tok(apps), sched_tok(scheduling), proto_tok(protocol_state), src_tok(check_options.source), tok));
        let d = parse_decision(&tok);
        match d {
            CheckDecision::Ok(_) | CheckDecision::OkUpdateDeferred(_) => { h.in_check = true; h.backoffs_in_check = 0; }
            _ => { h.advance_unit(); }
        }
        futures::future::ready(d).boxed()
    }

    fn update_can_start<'a>(&'a mut self, plan: &'a HPlan) -> BoxFuture<'a, UpdateDecision> {
        let mut h = self.hub.lock().unwrap();
        probe_locks(&mut h, "P canstart");
        let tok = h.env.canstart.clone();
        h.log(format!("P canstart plan={} -> {}", plan.0, tok));
        futures::future::ready(match tok.as_str() { "ok" => UpdateDecision::Ok, "deferred" => UpdateDecision::DeferredByPolicy, _ => UpdateDecision::DeniedByPolicy }).boxed()
    }

    fn reboot_allowed<'a>(&'a mut self, check_options: &'a CheckOptions, _r: &'a ()) -> BoxFuture<'a, bool> {
        let mut h = self.hub.lock().unwrap();
        probe_locks(&mut h, "P rebootallowed");
        let a = h.env.rallow.pop_front().unwrap_or(false);
        h.reboot_phase = true;
        h.log(format!("P rebootallowed opts={} -> {}", src_tok(check_options.source), a));
        futures::future::ready(a).boxed()
    }

    fn reboot_needed<'a>(&'a mut self, plan: &'a HPlan) -> BoxFuture<'a, bool> {
        let mut h = self.hub.lock().unwrap();
        probe_locks(&mut h, "P rebootneeded");
        let a = h.env.rebootneeded;
        h.log(format!("P rebootneeded plan={} -> {}", plan.0, a));
        futures::future::ready(a).boxed()
    }
}

// ---------------------------------------------------------------------------------------------
// HTTP

pub struct HHttp(pub H);

fn j_opt_str(v: Option<&serde_json::Value>) -> String {
    match v.and_then(|x| x.as_str()) { Some(s) => hexb(s.as_bytes()), None => "-".into() }
}

/// The request as the `H` trace line describes it, from the bytes on the wire.
pub fn wire_summary(body: &[u8], uri: &str, headers: &http::HeaderMap, in_check: bool, cup_on: bool) -> (String, String) {
    let v: serde_json::Value = serde_json::from_slice(body).unwrap_or(serde_json::Value::Null);
    let r = &v["request"];
    let empty = vec![];
    let apps = r["app"].as_array().unwrap_or(&empty);
    let has_uc = apps.iter().any(|a| a.get("updatecheck").is_some());
    let kind = if has_uc { "uc" } else if in_check { "ev" } else { "ping" };
    let guid = |k: &str| r.get(k).and_then(|x| x.as_str()).map(|s| format!("G{}", s.trim_matches(|c| c == '{' || c == '}').replace('-', ""))).unwrap_or("-".into());
    // the handler appends its parameter: with a cup2key already in the configured URL the last one is the handler's
    let nonce = uri.split(|c| c == '?' || c == '&').filter_map(|p| p.strip_prefix("cup2key=")).last().and_then(|v| v.split(':').nth(1)).map(|n| format!("N{}", n)).unwrap_or("-".into());
    // without a handler nothing is appended: a cup2key that is part of the configured URL is not a nonce
    let nonce = if cup_on { nonce } else { "-".to_string() };
    let apps_s: Vec<String> = apps.iter().map(|a| {
        let uc = match a.get("updatecheck") { None => "-".to_string(), Some(u) => format!("{}:{}", u.get("updatedisabled").and_then(|x| x.as_bool()).unwrap_or(false) as u8, u.get("sameversionupdate").and_then(|x| x.as_bool()).unwrap_or(false) as u8) };
        let ping = match a.get("ping") { None => "-".to_string(), Some(p) => match (p.get("ad").and_then(|x| x.as_u64()), p.get("rd").and_then(|x| x.as_u64())) { (None, None) => "none".into(), (Some(x), Some(y)) if x == y => x.to_string(), (x, y) => format!("ad{:?}rd{:?}", x, y) } };
        let evs = match a.get("event").and_then(|e| e.as_array()) { None => "-".to_string(), Some(es) => es.iter().map(|e| format!("{}/{}/{}/{}/{}/{}",
            e["eventtype"], e["eventresult"], e.get("errorcode").map(|x| x.to_string()).unwrap_or("-".into()), j_opt_str(e.get("previousversion")), j_opt_str(e.get("nextversion")),
            e.get("download_time_ms").map(|x| x.to_string()).unwrap_or("-".into()))).collect::<Vec<_>>().join(",") };
        format!("{}|{}|{}|{}|{}|{}|uc={}|ping={}|ev={}", j_opt_str(a.get("appid")), a.get("version").and_then(|x| x.as_str()).unwrap_or("?"), j_opt_str(a.get("fp")),
            j_opt_str(a.get("cohort")), j_opt_str(a.get("cohorthint")), j_opt_str(a.get("cohortname")), uc, ping, evs)
    }).collect();
    let src = r.get("installsource").and_then(|x| x.as_str()).map(|s| if s == "ondemand" { "od" } else { "st" }).unwrap_or("?");
    // the interactivity header must agree with the install source of the body
    let fg = headers.get("x-goog-update-interactivity").and_then(|h| h.to_str().ok()).unwrap_or("?");
    let src = if (src == "od") == (fg == "fg") { src.to_string() } else { format!("{}!hdr-{}", src, fg) };
    (kind.to_string(), format!("H {} src={} sid={} rid={} nonce={} apps=[{}]", kind, src, guid("sessionid"), guid("requestid"), nonce, apps_s.join(";")))
}

impl HttpRequest for HHttp {
    fn request(&mut self, req: hyper::Request<hyper::Body>) -> BoxFuture<'_, Result<hyper::Response<Vec<u8>>, HttpError>> {
        let hub = self.0.clone();
        probe_locks(&mut hub.lock().unwrap(), "H request");
        {
            let mut h = hub.lock().unwrap();
            if let Some(orig) = h.mutated_apps.take() {
                // the old values come back — except the cohort hint of an app for which the answer about to be given is a response
                // the client will accept and that carries a hint for it: the response's value replaces whatever the app has, so the
                // embedder's change may stay without the end state differing
                let cup_on = h.cup_sign.is_some();
                let covered: Vec<String> = match (h.mock.is_none(), h.env.uc.front()) {
                    (true, Some(HttpOutcome::Resp { status, authentic, body, .. })) if (200..300).contains(status) && (*authentic || !cup_on) && h.env.plan.is_some() => {
                        match omaha_client::protocol::response::parse_json_response(body) {
                            Ok(r) => orig.iter().filter(|a| r.apps.iter().filter(|ra| ra.id == a.id).count() == 1 && r.apps.iter().any(|ra| ra.id == a.id && ra.cohort.hint.is_some())).map(|a| a.id.clone()).collect(),
                            Err(_) => vec![],
                        }
                    }
                    _ => vec![],
                };
                LOCKS.with(|l| if let Some((_, a)) = &*l.borrow() { if let Some(mut set) = a.try_lock() {
                    set.apps = orig;
                    for app in set.apps.iter_mut() { if covered.contains(&app.id) { app.cohort.hint = Some("changed-by-the-embedder".into()); } }
                } });
            }
        }
        async move {
            let (parts, body) = req.into_parts();
            let body = hyper::body::to_bytes(body).await.unwrap().to_vec();
            let uri = parts.uri.to_string();
            // stream `smmock`: the reply comes from the in-process mock server
            let mock_server = hub.lock().unwrap().mock.as_ref().map(|m| (m.server.clone(), m.auth));
            if let Some((server, auth)) = mock_server {
                use futures::FutureExt;
                let origin = parts.uri.path_and_query().map(|p| p.to_string()).unwrap_or("/".into());
                let sreq = hyper::Request::builder().method("POST").uri(origin.clone()).body(hyper::Body::from(body.clone())).unwrap();
                let res = std::panic::AssertUnwindSafe(async { mock_omaha_server::handle_request(sreq, &server).await }).catch_unwind().await;
                let reply = match res {
                    Err(_) => MockReply::Panic,
                    Ok(Err(_)) => MockReply::Error,
                    Ok(Ok(resp)) => {
                        let status = resp.status().as_u16();
                        let etag = resp.headers().get(http::header::ETAG).map(|v| v.as_bytes().to_vec());
                        let rbody = hyper::body::to_bytes(resp.into_body()).await.unwrap().to_vec();
                        MockReply::Reply { status, etag, body: rbody }
                    }
                };
                let outcome = match &reply {
                    MockReply::Reply { status, body: rbody, .. } => HttpOutcome::Resp { status: *status, retry_after: None, body: rbody.clone(), authentic: auth, forgery: 0, dw: 0, dm: 0 },
                    _ => HttpOutcome::Fail { kind: 't', dw: 0, dm: 0 },
                };
                let gate = {
                    let mut h = hub.lock().unwrap();
                    let (kind, line) = wire_summary(&body, &uri, &parts.headers, h.in_check, h.cup_sign.is_some());
                    let method_ok = parts.method == http::Method::POST;
                    h.log(format!("{}{} -> {}", line, if method_ok { "" } else { " !method" }, outcome.short()));
                    if kind == "uc" { h.last_uc_request = Some((body.clone(), uri.clone())); }
                    if let Some(m) = h.mock.as_mut() { m.log.push((kind.clone(), outcome.clone())); }
                    let g = h.new_gate();
                    h.http_waiting = Some(g);
                    g
                };
                Gate { hub: hub.clone(), id: gate }.await;
                let mut h = hub.lock().unwrap();
                h.http_waiting = None;
                let out = match &reply {
                    MockReply::Reply { status, etag, body: rbody } => {
                        let mut b = hyper::Response::builder().status(*status);
                        if let Some(e) = etag { if let Ok(v) = http::HeaderValue::from_bytes(e) { b = b.header(http::header::ETAG, v); } }
                        if auth { h.last_etag_sig = etag.as_ref().and_then(|e| std::str::from_utf8(e).ok().and_then(|t| t.trim_start_matches("W/").trim_matches('"').split(':').next().and_then(|x| hex::decode(x).ok()))); }
                        h.last_resp_body = Some(rbody.clone());
                        Ok(b.body(rbody.clone()).unwrap())
                    }
                    _ => Err(mock_errors::make_transport_error()),
                };
                if let Some(m) = h.mock.as_mut() { m.exchanges.push((origin, body, reply)); }
                return out;
            }
            let (gate, outcome) = {
                let mut h = hub.lock().unwrap();
                let (kind, line) = wire_summary(&body, &uri, &parts.headers, h.in_check, h.cup_sign.is_some());
                let outcome = match kind.as_str() { "uc" => h.env.uc.pop_front(), "ev" => h.env.ev.pop_front(), _ => h.env.pg.pop_front() }
                    .unwrap_or(HttpOutcome::Fail { kind: 't', dw: 0, dm: 0 });
                let method_ok = parts.method == http::Method::POST;
                h.log(format!("{}{} -> {}", line, if method_ok { "" } else { " !method" }, outcome.short()));
                if kind == "uc" { h.last_uc_request = Some((body.clone(), uri.clone())); }
                let g = h.new_gate();
                h.http_waiting = Some(g);
                (g, outcome)
            };
            Gate { hub: hub.clone(), id: gate }.await;
            let mut h = hub.lock().unwrap();
            h.http_waiting = None;
            match outcome {
                HttpOutcome::Fail { kind, dw, dm } => {
                    h.tick((dw, dm));
                    // every other failure is a genuine hyper error converted the way an HttpRequest implementation converts it:
                    // an aborted body write is hyper's caller error, a failing body stream a transport error
                    let real = h.next_gate % 2 == 0;
                    Err(match kind {
                        'u' if real => { let (tx, body) = hyper::Body::channel(); tx.abort();
                            HttpError::from(futures::FutureExt::now_or_never(hyper::body::to_bytes(body)).expect("ready").expect_err("aborted")) }
                        'u' => mock_errors::make_user_error(),
                        'o' => HttpError::new_timeout(),
                        _ if real => { let body = hyper::Body::wrap_stream(futures::stream::once(async { Err::<Vec<u8>, std::io::Error>(std::io::Error::new(std::io::ErrorKind::ConnectionReset, "reset")) }));
                            HttpError::from(futures::FutureExt::now_or_never(hyper::body::to_bytes(body)).expect("ready").expect_err("failing stream")) }
                        _ => mock_errors::make_transport_error(),
                    })
                }
                HttpOutcome::Resp { status, retry_after, body: rbody, authentic, forgery, dw, dm } => {
                    h.tick((dw, dm));
                    let mut b = hyper::Response::builder().status(status);
                    if let Some(ra) = &retry_after {
                        if let Ok(v) = http::HeaderValue::from_bytes(ra) { b = b.header("X-Retry-After", v); }
                    }
                    if let Some((kid, key)) = h.cup_sign {
                        // cup2key=<id>:<nonce> from the request URL
                        let cup2key = uri.split(|c| c == '?' || c == '&').find_map(|p| p.strip_prefix("cup2key=")).unwrap_or("").to_string();
                        let etag = crate::sm::exec::make_etag(&body, &rbody, &cup2key, kid, key, authentic, forgery, &h.old_etags);
                        if authentic { if let Some(e) = &etag { h.old_etags.push(e.clone()); h.last_etag_sig = e.split(':').next().and_then(|s| hex::decode(s).ok()); } }
                        if let Some(e) = etag { b = b.header(http::header::ETAG, e); }
                    }
                    h.last_resp_body = Some(rbody.clone());
                    Ok(b.body(rbody).unwrap())
                }
            }
        }.boxed()
    }
}

// ---------------------------------------------------------------------------------------------
// installer

pub struct HPlan(pub u32);
impl Plan for HPlan { fn id(&self) -> String { format!("plan-{}", self.0) } }

#[derive(Debug)]
pub struct HErr(pub u32);
impl std::fmt::Display for HErr { fn fmt(&self, f: &mut std::fmt::Formatter<'_>) -> std::fmt::Result { write!(f, "f{}", self.0) } }
impl std::error::Error for HErr {}

pub struct HInstaller(pub H);

impl Installer for HInstaller {
    type InstallPlan = HPlan;
    type InstallResult = ();
    type Error = HErr;

    fn perform_install<'a>(&'a mut self, plan: &'a HPlan, observer: Option<&'a dyn ProgressObserver>) -> LocalBoxFuture<'a, ((), Vec<AppInstallResult<HErr>>)> {
        let hub = self.0.clone();
        probe_locks(&mut hub.lock().unwrap(), "I install");
        async move {
            let (progress, results, dt) = {
                let mut h = hub.lock().unwrap();
                let p = h.env.progress.clone(); let r = h.env.results.clone(); let dt = h.env.instdt;
                let rs: Vec<String> = r.iter().map(|x| match x { AppRes::Installed => "i".to_string(), AppRes::Deferred => "d".into(), AppRes::Failed(m) => format!("f{}", m) }).collect();
                h.log(format!("I install plan={} progress=[{}] results=[{}]", plan.0, p.iter().map(|x| x.to_string()).collect::<Vec<_>>().join(","), rs.join(",")));
                (p, r, dt)
            };
            if let Some(o) = observer {
                // progress is reported one value at a time and, in between, by several reports in flight
                // at once (groups of 1, 2, 3, 1, ... values joined concurrently): every value must reach the
                // observer, in this order
                let mut i = 0; let mut size = 1;
                while i < progress.len() {
                    let group: Vec<u32> = progress[i..(i + size).min(progress.len())].to_vec();
                    i += group.len();
                    if group.len() == 1 { o.receive_progress(None, group[0] as f32 / 16.0, None, None).await; }
                    else { futures::future::join_all(group.iter().map(|k| o.receive_progress(None, *k as f32 / 16.0, None, None))).await; }
                    size = size % 3 + 1;
                }
            }
            hub.lock().unwrap().tick(dt);
            ((), results.into_iter().map(|r| match r { AppRes::Installed => AppInstallResult::Installed, AppRes::Deferred => AppInstallResult::Deferred, AppRes::Failed(m) => AppInstallResult::Failed(HErr(m)) }).collect())
        }.boxed_local()
    }

    fn perform_reboot(&mut self) -> LocalBoxFuture<'_, Result<(), anyhow::Error>> {
        let mut h = self.0.lock().unwrap();
        probe_locks(&mut h, "I reboot");
        let ok = h.env.rebootok;
        h.log(format!("I reboot -> {}", if ok { "ok" } else { "err" }));
        futures::future::ready(if ok { Ok(()) } else { Err(anyhow::anyhow!("reboot failed")) }).boxed_local()
    }

    fn try_create_install_plan<'a>(&'a self, params: &'a RequestParams, meta: Option<&'a RequestMetadata>, _response: &'a Response, response_bytes: Vec<u8>, sig: Option<Vec<u8>>) -> LocalBoxFuture<'a, Result<HPlan, HErr>> {
        let mut h = self.0.lock().unwrap();
        probe_locks(&mut h, "I plan");
        // the metadata handed over must be what went on the wire for the update check
        let meta_tok = match (meta, &h.last_uc_request) {
            (None, _) => "none".to_string(),
            (Some(m), Some((body, uri))) => {
                let nonce: [u8; 32] = m.nonce.into();
                let want = format!("cup2key={}:{}", m.public_key_id, hex::encode(nonce));
                let mut t = "ok".to_string();
                if &m.request_body != body { t = "body-differs".into(); }
                if !uri.contains(&want) { t = "cup2key-differs".into(); }
                if h.last_resp_body.as_ref() != Some(&response_bytes) { t = "response-bytes-differ".into(); }
                if sig.is_some() && sig != h.last_etag_sig { t = "signature-differs".into(); }
                if sig.is_none() { t = "signature-missing".into(); }
                t
            }
            (Some(_), None) => "no-request-seen".into(),
        };
        let ans = h.env.plan;
        h.log(format!("I plan src={} meta={} -> {}", src_tok(params.source), meta_tok, ans.map(|n| n.to_string()).unwrap_or("err".into())));
        futures::future::ready(match ans { Some(n) => Ok(HPlan(n)), None => Err(HErr(999)) }).boxed_local()
    }
}

// ---------------------------------------------------------------------------------------------
// storage

pub struct HStorage(pub H);

#[derive(Debug)]
pub struct StoreErr;
impl std::fmt::Display for StoreErr { fn fmt(&self, f: &mut std::fmt::Formatter<'_>) -> std::fmt::Result { write!(f, "storage failure") } }
impl std::error::Error for StoreErr {}

impl HStorage {
    fn get(&self, key: &str) -> Option<SVal> {
        let h = self.0.lock().unwrap();
        match h.pending.get(key.as_bytes()) { Some(v) => v.clone(), None => h.committed.get(key.as_bytes()).cloned() }
    }
    fn op(&mut self, desc: String, apply: impl FnOnce(&mut Hub)) -> Result<(), StoreErr> {
        let mut h = self.0.lock().unwrap();
        let is_commit = desc == "commit";
        let (wf, cf) = match h.tx_fail {
            Some(m) => m,
            None => { let m = (h.env.sfail.pop_front().unwrap_or(false), h.env.sfail.pop_front().unwrap_or(false)); h.tx_fail = Some(m); m }
        };
        let fail = if is_commit { cf } else { wf };
        if is_commit { h.tx_fail = None; }
        h.sfail_obs.push(fail);
        h.log(format!("S {} -> {}", desc, if fail { "err" } else { "ok" }));
        if fail { Err(StoreErr) } else { apply(&mut h); Ok(()) }
    }
}

impl Storage for HStorage {
    type Error = StoreErr;
    fn get_string<'a>(&'a self, key: &'a str) -> BoxFuture<'a, Option<String>> {
        futures::future::ready(match self.get(key) { Some(SVal::Str(s)) => String::from_utf8(s).ok(), _ => None }).boxed()
    }
    fn get_int<'a>(&'a self, key: &'a str) -> BoxFuture<'a, Option<i64>> {
        futures::future::ready(match self.get(key) { Some(SVal::Int(i)) => Some(i), _ => None }).boxed()
    }
    fn get_bool<'a>(&'a self, key: &'a str) -> BoxFuture<'a, Option<bool>> {
        futures::future::ready(match self.get(key) { Some(SVal::Bool(b)) => Some(b), _ => None }).boxed()
    }
    fn set_string<'a>(&'a mut self, key: &'a str, value: &'a str) -> BoxFuture<'a, Result<(), StoreErr>> {
        let (k, v) = (key.as_bytes().to_vec(), SVal::Str(value.as_bytes().to_vec()));
        let r = self.op(format!("set {} {}", hexb(&k), v.tok()), |h| { h.pending.insert(k.clone(), Some(v.clone())); });
        futures::future::ready(r).boxed()
    }
    fn set_int<'a>(&'a mut self, key: &'a str, value: i64) -> BoxFuture<'a, Result<(), StoreErr>> {
        let (k, v) = (key.as_bytes().to_vec(), SVal::Int(value));
        let r = self.op(format!("set {} {}", hexb(&k), v.tok()), |h| { h.pending.insert(k.clone(), Some(v.clone())); });
        futures::future::ready(r).boxed()
    }
    fn set_bool<'a>(&'a mut self, key: &'a str, value: bool) -> BoxFuture<'a, Result<(), StoreErr>> {
        let (k, v) = (key.as_bytes().to_vec(), SVal::Bool(value));
        let r = self.op(format!("set {} {}", hexb(&k), v.tok()), |h| { h.pending.insert(k.clone(), Some(v.clone())); });
        futures::future::ready(r).boxed()
    }
    fn remove<'a>(&'a mut self, key: &'a str) -> BoxFuture<'a, Result<(), StoreErr>> {
        let k = key.as_bytes().to_vec();
        let r = self.op(format!("remove {}", hexb(&k)), |h| { h.pending.insert(k.clone(), None); });
        futures::future::ready(r).boxed()
    }
    fn commit(&mut self) -> BoxFuture<'_, Result<(), StoreErr>> {
        let r = self.op("commit".into(), |h| {
            let p = std::mem::take(&mut h.pending);
            for (k, v) in p { match v { Some(x) => { h.committed.insert(k, x); } None => { h.committed.remove(&k); } } }
        });
        futures::future::ready(r).boxed()
    }
}

// ---------------------------------------------------------------------------------------------
// metrics, app set

pub struct HMetrics(pub H);

pub fn event_tok(e: &omaha_client::protocol::request::Event) -> String {
    let v = serde_json::to_value(e).unwrap();
    format!("{}/{}/{}/{}/{}/{}", v["eventtype"], v["eventresult"], v.get("errorcode").map(|x| x.to_string()).unwrap_or("-".into()),
        j_opt_str(v.get("previousversion")), j_opt_str(v.get("nextversion")), v.get("download_time_ms").map(|x| x.to_string()).unwrap_or("-".into()))
}

impl MetricsReporter for HMetrics {
    fn report_metrics(&mut self, m: Metrics) -> Result<(), anyhow::Error> {
        let s = match &m {
            Metrics::UpdateCheckResponseTime { response_time, successful } => format!("responsetime {} {}", response_time.as_nanos(), successful),
            Metrics::UpdateCheckInterval { interval, clock, install_source } => format!("interval {} {} {}", interval.as_nanos(), if *clock == ClockType::Monotonic { "mono" } else { "wall" }, src_tok(*install_source)),
            Metrics::SuccessfulUpdateDuration(d) => format!("updok {}", d.as_nanos()),
            Metrics::SuccessfulUpdateFromFirstSeen(d) => format!("firstseen {}", d.as_nanos()),
            Metrics::FailedUpdateDuration(d) => format!("updfail {}", d.as_nanos()),
            Metrics::UpdateCheckFailureReason(r) => format!("reason {}", match r { UpdateCheckFailureReason::Omaha => 0, UpdateCheckFailureReason::Network => 1, UpdateCheckFailureReason::Proxy => 2, UpdateCheckFailureReason::Configuration => 3, UpdateCheckFailureReason::Internal => 4 }),
            Metrics::RequestsPerCheck { count, successful } => format!("reqspercheck {} {}", count, successful),
            Metrics::AttemptsToSuccessfulCheck(n) => format!("attemptscheck {}", n),
            Metrics::AttemptsToSuccessfulInstall { count, successful } => format!("attemptsinstall {} {}", count, successful),
            Metrics::WaitedForRebootDuration(d) => format!("waitedreboot {}", d.as_nanos()),
            Metrics::FailedBootAttempts(n) => format!("failedboot {}", n),
            Metrics::OmahaEventLost(e) => format!("eventlost {}", event_tok(e)),
        };
        self.0.lock().unwrap().log(format!("M {}", s));
        Ok(())
    }
}

pub struct HAppSet { pub apps: Vec<App>, pub sys: String }

impl AppSet for HAppSet {
    fn get_apps(&self) -> Vec<App> { self.apps.clone() }
    fn iter_mut_apps(&mut self) -> Box<dyn Iterator<Item = &mut App> + '_> { Box::new(self.apps.iter_mut()) }
    fn get_system_app_id(&self) -> &str { &self.sys }
}
