//! Manual single-threaded executor for the real state machine, unit by unit.

use super::*;
use crate::streams::cup::signing_key;
use futures::stream::Stream;
use omaha_client::state_machine::{update_check, ControlHandle, OmahaRequestError, StartUpdateCheckResponse, State, StateMachineEvent, UpdateCheckError};
use p256::ecdsa::signature::{Signature as _, Signer};
use sha2::{Digest, Sha256};
use std::sync::atomic::{AtomicBool, Ordering};
use std::task::Wake;

pub struct Flag(pub AtomicBool);
impl Wake for Flag {
    fn wake(self: Arc<Self>) { self.0.store(true, Ordering::SeqCst); }
}

/// ETag for a response: authentic (signed over a digest composed here), or one of the forgeries.
pub fn make_etag(req_body: &[u8], resp_body: &[u8], cup2key: &str, _kid: u64, key: usize, authentic: bool, forgery: u8, old: &[String]) -> Option<String> {
    let sign = |req: &[u8], resp: &[u8], c2k: &str, key: usize| -> String {
        let mut m = Sha256::digest(req).to_vec();
        m.extend(Sha256::digest(resp));
        m.extend(c2k.as_bytes());
        let d = Sha256::digest(&m);
        let sig: p256::ecdsa::Signature = signing_key(key).sign(&d);
        format!("{}:{}", hex::encode(sig.to_der().as_bytes()), hex::encode(Sha256::digest(req)))
    };
    if authentic { return Some(sign(req_body, resp_body, cup2key, key)); }
    match forgery {
        0 => None,                                                            // unsigned
        1 => { let mut r = resp_body.to_vec(); r.push(b' '); Some(sign(req_body, &r, cup2key, key)) }   // signed for another body
        2 => Some(sign(req_body, resp_body, cup2key, (key + 1) % 5)),        // wrong key
        3 => old.last().cloned().or(Some("00:00".into())),                    // replay of an earlier genuine ETag
        4 => Some(sign(req_body, resp_body, &format!("{}0", cup2key), key)),  // foreign nonce
        5 => Some("not-an-etag".into()),
        // degenerate header values around the quoting / weak-validator syntax
        f => Some(["\"", "W/\"", "W/", "\"\"", "W/\"\"", ":", "\":\"", "W", "\"a", "a\""][(f as usize - 6) % 10].to_string()),
    }
}

pub fn state_tok(s: &State) -> String {
    match s {
        State::Idle => "idle".into(), State::CheckingForUpdates(src) => format!("checking-{}", src_tok(*src)), State::ErrorCheckingForUpdate => "error".into(),
        State::NoUpdateAvailable => "noupdate".into(), State::InstallationDeferredByPolicy => "deferred".into(), State::InstallingUpdate => "installing".into(),
        State::WaitingForReboot => "waitreboot".into(), State::InstallationError => "insterror".into(),
    }
}

fn opt_hex(o: &Option<String>) -> String { o.as_ref().map(|s| hexb(s.as_bytes())).unwrap_or("-".into()) }

pub fn event_line(e: &StateMachineEvent) -> String {
    match e {
        StateMachineEvent::StateChange(s) => format!("E state {}", state_tok(s)),
        StateMachineEvent::ScheduleChange(s) => format!("E sched {}", sched_tok(s)),
        StateMachineEvent::ProtocolStateChange(p) => format!("E proto {}", proto_tok(p)),
        StateMachineEvent::UpdateCheckResult(Ok(r)) => {
            let v: Vec<String> = r.app_responses.iter().map(|a| {
                let UserCounting::ClientRegulatedByDate(uc) = a.user_counting.clone();
                format!("{}|{}|{}|{}|{}|{}", hexb(a.app_id.as_bytes()), opt_hex(&a.cohort.id), opt_hex(&a.cohort.hint), opt_hex(&a.cohort.name),
                    uc.map(|n| n.to_string()).unwrap_or("-".into()),
                    match a.result { update_check::Action::NoUpdate => "noupdate", update_check::Action::DeferredByPolicy => "deferred", update_check::Action::DeniedByPolicy => "denied",
                        update_check::Action::InstallPlanExecutionError => "insterror", update_check::Action::Updated => "updated" })
            }).collect();
            format!("E result ok {}", if v.is_empty() { "-".into() } else { v.join(";") })
        }
        StateMachineEvent::UpdateCheckResult(Err(e)) => format!("E result err {}", match e {
            UpdateCheckError::OmahaRequest(r) => match r {
                OmahaRequestError::Json(_) => "req-json", OmahaRequestError::HttpBuilder(_) => "req-httpbuilder", OmahaRequestError::CupDecoration(_) => "req-cupdecoration",
                OmahaRequestError::CupValidation(_) => "req-cupvalidation", OmahaRequestError::HttpTransport(_) => "req-transport", OmahaRequestError::HttpStatus(_) => "req-status" },
            UpdateCheckError::ResponseParser(_) => "parser", UpdateCheckError::InstallPlan(_) => "plan" }),
        StateMachineEvent::InstallProgressChange(p) => format!("E progress {}", (p.progress * 16.0).round() as i64),
        StateMachineEvent::OmahaServerResponse(r) => format!("E response {}", crate::streams::resp::dump(r)),
        StateMachineEvent::InstallerError(e) => format!("E insterr {}", e.as_ref().map(|e| e.to_string().trim_start_matches('f').to_string()).unwrap_or("-".into())),
    }
}

pub struct Ctl {
    pub id: usize,
    pub fut: Pin<Box<dyn Future<Output = Result<StartUpdateCheckResponse, omaha_client::state_machine::StateMachineGone>>>>,
    pub done: bool,
}

pub struct Runner<'a> {
    pub hub: H,
    pub stream: Pin<Box<dyn Stream<Item = StateMachineEvent> + 'a>>,
    pub handle: Option<ControlHandle>,
    pub ctls: Vec<Ctl>,
    pub replies: Vec<(usize, String)>,
    pub flag: Arc<Flag>,
    /// wakers of the control-request futures (kept apart from the stream's)
    pub ctl_flag: Arc<Flag>,
    /// strict executor: the stream is polled only after its waker was woken or right after it delivered an event
    pub strict: bool,
    /// every poll of the stream gets a waker of its own; only a wake-up of the most recent one counts
    pub fresh: bool,
    pub need_poll: bool,
    /// number of the unit `run_unit` is driving (index of the boundary that ends it)
    pub next_boundary: usize,
    pub ended: bool,
    pub polls: u64,
    pub stalled_wakeups: u64,
    /// perturbation: right after an event whose trace line starts with the prefix has been delivered, the embedder holds
    /// the shared storage lock (`true`) or app-set lock (`false`) while the machine is polled once more, then lets go
    pub contend: Option<(String, bool)>,
    pub storage: Option<std::rc::Rc<futures::lock::Mutex<crate::sm::HStorage>>>,
    pub app_set: Option<std::rc::Rc<futures::lock::Mutex<crate::sm::HAppSet>>>,
    pub contended: u64,
    /// the process dies once the trace has this many lines (checked at every environment interaction)
    pub crash_at: Option<usize>,
    /// one handle instance used for several requests in a row (leaked on purpose: futures borrow it for 'static)
    pub shared: Option<*mut ControlHandle>,
}

#[derive(Debug, PartialEq)]
pub enum UnitEnd { Idle, Negative, Stalled, StreamEnded, Crashed, Panicked }

impl<'a> Runner<'a> {
    pub fn poll_ctls(&mut self) {
        let waker = Waker::from(self.ctl_flag.clone());
        let mut cx = Context::from_waker(&waker);
        for c in self.ctls.iter_mut() {
            if c.done { continue; }
            if let Poll::Ready(r) = c.fut.as_mut().poll(&mut cx) {
                c.done = true;
                let s = match r { Ok(StartUpdateCheckResponse::Started) => "started", Ok(StartUpdateCheckResponse::AlreadyRunning) => "already", Ok(StartUpdateCheckResponse::Throttled) => "throttled", Err(_) => "gone" };
                self.replies.push((c.id, s.to_string()));
            }
        }
    }

    pub fn submit_ctl(&mut self, id: usize, ondemand: bool) {
        if let Some(h) = &self.handle {
            let mut h = h.clone();
            let opts = CheckOptions { source: if ondemand { InstallSource::OnDemand } else { InstallSource::ScheduledTask } };
            self.ctls.push(Ctl { id, fut: Box::pin(async move { h.start_update_check(opts).await }), done: false });
            self.poll_ctls();
        }
    }

    /// Poll the event stream once; log an event if one is delivered. Returns false on Pending.
    pub fn poll_stream(&mut self) -> bool {
        let before = self.hub.lock().unwrap().trace.len();
        let r = self.poll_stream_once();
        if r {
            // the consumer now holds an event and the machine is suspended in its emission: a shared lock it still holds
            // would deadlock a consumer that takes that lock while handling the event (it runs in the task that polls)
            let st_held = self.storage.as_ref().map(|s| s.try_lock().is_none()).unwrap_or(false);
            let as_held = self.app_set.as_ref().map(|s| s.try_lock().is_none()).unwrap_or(false);
            if st_held || as_held {
                let mut h = self.hub.lock().unwrap();
                let ev = h.trace.last().map(|l| l.split(' ').take(2).collect::<Vec<_>>().join(" ")).unwrap_or_default();
                h.log(format!("L held storage={} appset={} at {}", st_held as u8, as_held as u8, ev));
            }
            if let Some((prefix, storage)) = self.contend.clone() {
                let hit = { let h = self.hub.lock().unwrap(); h.trace.len() > before && h.trace.last().map(|l| l.starts_with(&prefix)).unwrap_or(false) };
                if hit {
                    if storage {
                        if let Some(st) = self.storage.clone() { if let Some(g) = st.try_lock() {
                            // right after the check's result the machine goes straight for the storage lock (end-of-check persist) and
                            // reads the app set only once it has it: an embedder that holds the lock meanwhile may change the app set and
                            // put it back before letting go without the machine noticing
                            let saved = if prefix == "E result" { self.app_set.as_ref().and_then(|a| a.try_lock().map(|mut set| {
                                let old = set.apps.clone();
                                for app in set.apps.iter_mut() { app.cohort.hint = Some("changed-under-the-storage-lock".into()); }
                                old })) } else { None };
                            self.contended += 1; self.hub.lock().unwrap().embedder_lock = true; let _ = self.poll_stream_once(); self.hub.lock().unwrap().embedder_lock = false;
                            if let Some(old) = saved { if let Some(a) = self.app_set.as_ref() { if let Some(mut set) = a.try_lock() { set.apps = old; } } }
                            // lock order (documented on the struct: storage first): while the embedder holds the storage lock the machine
                            // must not sit on the app-set lock — an embedder that goes on to take the app set would deadlock with it
                            if self.app_set.as_ref().map(|a| a.try_lock().is_none()).unwrap_or(false) { self.hub.lock().unwrap().log("L held appset while waiting for storage".into()); }
                            drop(g);
                        } }
                    } else if let Some(a) = self.app_set.clone() { if let Some(g) = a.try_lock() { self.contended += 1; self.hub.lock().unwrap().embedder_lock = true; let _ = self.poll_stream_once(); self.hub.lock().unwrap().embedder_lock = false; drop(g); } }
                }
            }
        }
        r
    }

    fn poll_stream_once(&mut self) -> bool {
        if self.ended { return false; }
        if self.strict && !self.need_poll && !self.flag.0.load(Ordering::SeqCst) { return false; }
        if self.fresh { self.flag = Arc::new(Flag(AtomicBool::new(false))); }
        let waker = Waker::from(self.flag.clone());
        let mut cx = Context::from_waker(&waker);
        self.flag.0.store(false, Ordering::SeqCst);
        self.polls += 1;
        let r = self.stream.as_mut().poll_next(&mut cx);
        self.need_poll = matches!(r, Poll::Ready(Some(_)));
        match r {
            Poll::Ready(Some(ev)) => {
                let line = event_line(&ev);
                let mut h = self.hub.lock().unwrap();
                if let StateMachineEvent::UpdateCheckResult(_) = ev { h.in_check = false; }
                h.log(line);
                if let StateMachineEvent::StateChange(State::Idle) = ev { h.advance_unit(); }
                true
            }
            Poll::Ready(None) => { self.ended = true; false }
            Poll::Pending => false,
        }
    }

    /// Run one unit: drive the machine until the unit boundary (Idle delivered, negative check
    /// decision, script exhausted, or end of stream).
    pub fn run_unit(&mut self) -> UnitEnd {
        // the unit's number: it is over when the hub has recorded that many boundaries plus one — which may already be the case
        // (two refused requests queued at one wait are both decided within one poll)
        let nb = self.next_boundary;
        if self.hub.lock().unwrap().boundaries.len() > nb { self.next_boundary = nb + 1; self.poll_ctls(); return UnitEnd::Idle; }
        loop {
            if let Some(n) = self.crash_at { if self.hub.lock().unwrap().trace.len() >= n { return UnitEnd::Crashed; } }
            // drain everything the machine can do on its own
            while self.poll_stream() {
                if let Some(n) = self.crash_at { if self.hub.lock().unwrap().trace.len() >= n { return UnitEnd::Crashed; } }
                if self.hub.lock().unwrap().boundaries.len() > nb { self.next_boundary = nb + 1; self.poll_ctls(); return UnitEnd::Idle; }
            }
            self.poll_ctls();
            if self.ended { return UnitEnd::StreamEnded; }
            if self.hub.lock().unwrap().boundaries.len() > nb { self.next_boundary = nb + 1; return UnitEnd::Negative; }
            // the machine is blocked: decide what the environment does next
            let http = self.hub.lock().unwrap().http_waiting;
            if let Some(g) = http {
                let first = { let mut h = self.hub.lock().unwrap(); let f = !h.during_done && !h.reboot_phase && h.http_seen >= h.env.during_at; h.http_seen += 1; if f { h.during_done = true; } f };
                if first {
                    let during = self.hub.lock().unwrap().env.during.clone();
                    for (id, od) in during {
                        self.submit_ctl(id, od);
                        while self.poll_stream() {}
                        self.poll_ctls();
                    }
                }
                self.hub.lock().unwrap().release(g);
                continue;
            }
            // timers / control requests of the script
            let (reboot, step) = {
                let mut h = self.hub.lock().unwrap();
                if h.reboot_phase {
                    match h.env.rsteps.pop_front() { Some((s, dt)) => { h.tick(dt); (true, Some(s)) } None => (true, None) }
                } else if !h.env.wake.is_empty() {
                    let s = h.env.wake.remove(0);
                    if h.env.wake.is_empty() { let dt = h.env.wakedt; h.tick(dt); }
                    (false, Some(s))
                } else { (false, None) }
            };
            let _ = reboot;
            match step {
                None => {
                    if self.flag.0.load(Ordering::SeqCst) { self.stalled_wakeups += 1; continue; }
                    return UnitEnd::Stalled;
                }
                Some(Step::Fire(i)) => {
                    let mut h = self.hub.lock().unwrap();
                    h.log(format!("T fire {}", i));
                    if let Some(&g) = h.timers.get(i) { h.release(g); }
                    // simultaneous expiry: the remaining timers of the outer wait fire before the machine gets to run
                    while !h.reboot_phase && h.env.burst && matches!(h.env.wake.first(), Some(Step::Fire(_))) {
                        if let Step::Fire(j) = h.env.wake.remove(0) {
                            if h.env.wake.is_empty() { let dt = h.env.wakedt; h.tick(dt); }
                            h.log(format!("T fire {}", j));
                            if let Some(&g) = h.timers.get(j) { h.release(g); }
                        }
                    }
                    let race = if let Some(Step::Race(id, od)) = h.env.wake.first().cloned() { h.env.wake.remove(0); let dt = h.env.wakedt; h.tick(dt); Some((id, od)) } else { None };
                    drop(h);
                    if let Some((id, od)) = race { self.submit_ctl(id, od); }
                }
                Some(Step::Race(id, od)) => { self.submit_ctl(id, od); }
                Some(Step::Ctl2(id1, od1, id2, od2)) => {
                    // both are in the channel before the machine is polled (two clones of the handle)
                    if let Some(h) = &self.handle {
                        for (id, od) in [(id1, od1), (id2, od2)] {
                            let mut h = h.clone();
                            let opts = CheckOptions { source: if od { InstallSource::OnDemand } else { InstallSource::ScheduledTask } };
                            self.ctls.push(Ctl { id, fut: Box::pin(async move { h.start_update_check(opts).await }), done: false });
                        }
                        self.poll_ctls();
                    }
                }
                Some(Step::CtlQueued(..)) => {}
                Some(Step::FireCtl(i, id)) => {
                    {
                        let mut h = self.hub.lock().unwrap();
                        h.log(format!("T fire {}", i));
                        if let Some(&g) = h.timers.get(i) { h.release(g); }
                    }
                    self.submit_ctl(id, false);
                }
                Some(Step::Ctl(id, od)) => { self.submit_ctl(id, od); }
                Some(Step::CtlPair(id1, od1, id2, od2)) => {
                    if let Some(h) = &self.handle {
                        let raw = *self.shared.get_or_insert_with(|| Box::into_raw(Box::new(h.clone())));
                        let src = |od: bool| CheckOptions { source: if od { InstallSource::OnDemand } else { InstallSource::ScheduledTask } };
                        {
                            // SAFETY: the pointer comes from a leaked Box and the first future is dropped before the second is made
                            let h1: &'static mut ControlHandle = unsafe { &mut *raw };
                            let o1 = src(od1);
                            let mut fut1: Pin<Box<dyn Future<Output = _>>> = Box::pin(async move { h1.start_update_check(o1).await });
                            let waker = Waker::from(self.flag.clone());
                            let mut cx = Context::from_waker(&waker);
                            let _ = fut1.as_mut().poll(&mut cx);
                            drop(fut1);                              // the caller gives up
                        }
                        self.replies.push((id1, "abandoned".to_string()));
                        let h2: &'static mut ControlHandle = unsafe { &mut *raw };
                        let o2 = src(od2);
                        self.ctls.push(Ctl { id: id2, fut: Box::pin(async move { h2.start_update_check(o2).await }), done: false });
                        self.poll_ctls();
                        self.hub.lock().unwrap().during_done = true;
                    }
                }
            }
        }
    }
}

/// Replace `G<hex>` / `N<hex>` draw tokens by dense first-appearance indices.
pub fn canon_draws(lines: &[String]) -> Vec<String> {
    let mut seen_g: Vec<String> = vec![];
    let mut seen_n: Vec<String> = vec![];
    lines.iter().map(|l| {
        l.split(' ').map(|tok| {
            if let Some((k, v)) = tok.split_once('=') {
                if (k == "sid" || k == "rid") && v.starts_with('G') {
                    let i = seen_g.iter().position(|x| x == v).unwrap_or_else(|| { seen_g.push(v.to_string()); seen_g.len() - 1 });
                    return format!("{}=G{}", k, i);
                }
                if k == "nonce" && v.starts_with('N') {
                    let i = seen_n.iter().position(|x| x == v).unwrap_or_else(|| { seen_n.push(v.to_string()); seen_n.len() - 1 });
                    return format!("{}=N{}", k, i);
                }
            }
            tok.to_string()
        }).collect::<Vec<_>>().join(" ")
    }).collect()
}
