//! Correspondence harness: runs the real omaha-client code on generated inputs and writes, per
//! stream, the model-input lines, the implementation's canonical answers and coverage statistics.
//!
//! usage: harness <stream> --seed N --tier quick|thorough --out DIR [--corpus FILE]...

mod out;
mod rng;
mod sm;
mod streams;

use out::Sink;
use rng::Rng;

/// A subscriber that is enabled for everything and formats every event's fields, as any real logger does: the
/// library's `info!` / `warn!` / `error!` arguments (times, errors, URLs …) are evaluated, so a `Display` impl that
/// panics on some value is a panic of the state machine, as it is in a deployment with logging on.
struct EvalLogs;

impl tracing::Subscriber for EvalLogs {
    fn enabled(&self, _: &tracing::Metadata<'_>) -> bool { true }
    fn new_span(&self, _: &tracing::span::Attributes<'_>) -> tracing::span::Id { tracing::span::Id::from_u64(1) }
    fn record(&self, _: &tracing::span::Id, _: &tracing::span::Record<'_>) {}
    fn record_follows_from(&self, _: &tracing::span::Id, _: &tracing::span::Id) {}
    fn event(&self, event: &tracing::Event<'_>) {
        struct V(usize);
        impl tracing::field::Visit for V {
            fn record_debug(&mut self, _f: &tracing::field::Field, v: &dyn std::fmt::Debug) { self.0 += format!("{:?}", v).len(); }
        }
        let mut v = V(0);
        event.record(&mut v);
        std::hint::black_box(v.0);
    }
    fn enter(&self, _: &tracing::span::Id) {}
    fn exit(&self, _: &tracing::span::Id) {}
}

pub struct Opts {
    pub seed: u64,
    pub thorough: bool,
    pub out: String,
    pub corpus: Vec<String>,
    pub only_corpus: bool,
}

/// Input lines of `stream` from the corpus / replay files (they run first on every invocation).
pub fn corpus_lines(o: &Opts, stream: &str) -> Vec<String> {
    let mut v = vec![];
    let prefix = format!("{} ", stream);
    for path in &o.corpus {
        if let Ok(text) = std::fs::read_to_string(path) {
            for l in text.lines() {
                if let Some(rest) = l.strip_prefix(&prefix) {
                    v.push(rest.to_string());
                }
            }
        }
    }
    v
}

fn main() {
    let args: Vec<String> = std::env::args().collect();
    if args.len() < 2 {
        eprintln!("usage: harness <stream> --seed N --tier quick|thorough --out DIR");
        std::process::exit(2);
    }
    if args[1] == "deepchild" {
        // child of the `resp` stream: parse one very deeply nested document on a small stack; a stack
        // overflow kills this process only, and the parent reports the case as a crash
        streams::resp::deep_child(&args[2], args[3].parse().expect("depth"), &args[4]);
        return;
    }
    let stream = args[1].clone();
    let mut o = Opts { seed: 1, thorough: false, out: "out".into(), corpus: vec![], only_corpus: false };
    let mut i = 2;
    while i < args.len() {
        match args[i].as_str() {
            "--seed" => { o.seed = args[i + 1].parse().expect("seed"); i += 2; }
            "--tier" => { o.thorough = args[i + 1] == "thorough"; i += 2; }
            "--out" => { o.out = args[i + 1].clone(); i += 2; }
            "--corpus" => { o.corpus.push(args[i + 1].clone()); i += 2; }
            "--only-corpus" => { o.only_corpus = true; i += 1; }
            a => { eprintln!("unknown arg {}", a); std::process::exit(2); }
        }
    }
    let _ = tracing::subscriber::set_global_default(EvalLogs);
    // Panics of the implementation are caught per case; keep their messages off stderr.
    if std::env::var_os("HARNESS_SHOW_PANICS").is_none() { std::panic::set_hook(Box::new(|_| {})); }
    let mut rng = Rng::new(o.seed);
    let sink: Sink = match stream.as_str() {
        "version" => streams::version::run(&o, &mut rng),
        "time" => streams::time::run(&o, &mut rng),
        "cup" => streams::cup::run(&o, &mut rng),
        "uri" => streams::uri::run(&o, &mut rng),
        "sm" => streams::sm::run(&o, &mut rng),
        "smfault" => streams::sm::run_fault(&o, &mut rng),
        "ctl" => streams::sm::run_ctl(&o, &mut rng),
        "gen" => streams::gen::run(&o, &mut rng),
        "mock" => streams::mock::run(&o, &mut rng),
        "smmock" => streams::smmock::run(&o, &mut rng),
        "storage" => streams::storage::run(&o, &mut rng),
        "resp" => streams::resp::run(&o, &mut rng),
        "wire-req" => streams::wire_req::run(&o, &mut rng),
        s => { eprintln!("unknown stream {}", s); std::process::exit(2); }
    };
    sink.write(&o.out).expect("write output");
    println!("{} evaluations={} distinct_nontrivial={} impl_panics={}",
        sink.stream, sink.evaluations, sink.classes.len(), sink.impl_panics);
}
