//! Case sink: one model-input line and one implementation-output line per case, plus the
//! statistics that go into the evidence file.

use std::collections::{BTreeMap, BTreeSet};
use std::fmt::Write as _;
use std::panic::{catch_unwind, AssertUnwindSafe};

pub fn hexb(b: &[u8]) -> String {
    format!("x{}", hex::encode(b))
}

pub struct Sink {
    pub stream: &'static str,
    pub inputs: String,
    pub outputs: String,
    pub evaluations: u64,
    /// classes of non-trivial cases seen (distinctness is by class key)
    pub classes: BTreeSet<String>,
    /// histogram: generator branch / result kind -> count
    pub hist: BTreeMap<String, u64>,
    pub samples: Vec<String>,
    pub impl_panics: u64,
}

impl Sink {
    pub fn new(stream: &'static str) -> Self {
        Sink {
            stream,
            inputs: String::new(),
            outputs: String::new(),
            evaluations: 0,
            classes: BTreeSet::new(),
            hist: BTreeMap::new(),
            samples: vec![],
            impl_panics: 0,
        }
    }

    pub fn bump(&mut self, key: &str) {
        *self.hist.entry(key.to_string()).or_insert(0) += 1;
    }

    /// Record one case. `input` is the line handed to the model (without the stream name),
    /// `f` computes the implementation's canonical answer; a panic becomes the answer `panic`.
    /// `class`: Some(key) when the case is non-trivial, keyed by what makes it distinct.
    pub fn case<F: FnOnce() -> String>(&mut self, input: String, class: Option<String>, f: F) {
        let out = match catch_unwind(AssertUnwindSafe(f)) {
            Ok(s) => s,
            Err(_) => {
                self.impl_panics += 1;
                "panic".to_string()
            }
        };
        debug_assert!(!input.contains('\n') && !out.contains('\n'));
        let _ = writeln!(self.inputs, "{} {}", self.stream, input);
        let _ = writeln!(self.outputs, "{}", out);
        self.evaluations += 1;
        let first = out.split(' ').next().unwrap_or("");
        let kind = if first.chars().all(|c| c.is_ascii_alphabetic() || c == '-' || c == '_') && !first.is_empty() && first != "x" {
            first.to_string()
        } else {
            "value".to_string()
        };
        self.bump(&format!("result:{}", kind));
        if let Some(c) = class {
            if self.classes.insert(c) && self.samples.len() < 6 {
                self.samples.push(format!("{} {} => {}", self.stream, input, out));
            }
        }
    }

    pub fn write(&self, dir: &str) -> std::io::Result<()> {
        std::fs::create_dir_all(dir)?;
        std::fs::write(format!("{}/{}.in", dir, self.stream), &self.inputs)?;
        std::fs::write(format!("{}/{}.impl", dir, self.stream), &self.outputs)?;
        let meta = serde_json::json!({
            "stream": self.stream,
            "evaluations": self.evaluations,
            "distinct_nontrivial": self.classes.len(),
            "histogram": self.hist,
            "samples": self.samples,
            "impl_panics": self.impl_panics,
        });
        std::fs::write(
            format!("{}/{}.meta.json", dir, self.stream),
            serde_json::to_string_pretty(&meta).unwrap(),
        )
    }
}
