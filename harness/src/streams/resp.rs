//! stream `resp`: omaha_client::protocol::response::parse_json_response vs `Omaha.Response`.
//!
//! Documents come from an independent generator of the response grammar with its own JSON writer
//! (random member order, whitespace, escapes, extension attributes, boundary numbers), followed by
//! structural and byte-level mutations; the implementation's result is dumped field by field.

use crate::out::{hexb, Sink};
use crate::rng::Rng;
use crate::Opts;
use omaha_client::protocol::response::{parse_json_response, OmahaStatus, Response};
use serde_json::Value;

// ---------------------------------------------------------------------------------------------
// canonical dump of the implementation's result

fn opt_b(o: &Option<String>) -> String {
    o.as_ref().map(|s| hexb(s.as_bytes())).unwrap_or("-".into())
}

fn status(s: &OmahaStatus) -> String {
    match s {
        OmahaStatus::Ok => "ok".into(),
        OmahaStatus::Restricted => "restricted".into(),
        OmahaStatus::NoUpdate => "noupdate".into(),
        OmahaStatus::Error(e) => format!("E{}", hexb(e.as_bytes())),
    }
}

fn val(v: &Value) -> String {
    match v {
        Value::Null => "null".into(),
        Value::Bool(true) => "true".into(),
        Value::Bool(false) => "false".into(),
        Value::Number(n) => match n.as_u64() { Some(u) => format!("u{}", u), None => "o".into() },
        Value::String(s) => format!("s{}", hexb(s.as_bytes())),
        Value::Array(a) => format!("[{}]", a.iter().map(val).collect::<Vec<_>>().join(",")),
        Value::Object(m) => extras(m),
    }
}

fn extras(m: &serde_json::Map<String, Value>) -> String {
    // serde_json::Map is a BTreeMap here (no preserve_order): iteration is sorted by key
    format!("{{{}}}", m.iter().map(|(k, v)| format!("{}:{}", hexb(k.as_bytes()), val(v))).collect::<Vec<_>>().join("&"))
}

fn paren(v: Vec<String>) -> String {
    format!("({})", v.join("|"))
}

/// `Ping.status` is private: read it from the Debug rendering.
fn unescape_debug(s: &str) -> Vec<u8> {
    let mut out = String::new();
    let mut it = s.chars().peekable();
    while let Some(c) = it.next() {
        if c != '\\' { out.push(c); continue; }
        match it.next() {
            Some('n') => out.push('\n'), Some('t') => out.push('\t'), Some('r') => out.push('\r'),
            Some('0') => out.push('\0'), Some('\\') => out.push('\\'), Some('"') => out.push('"'), Some('\'') => out.push('\''),
            Some('u') => {
                let mut h = String::new();
                it.next(); // {
                while let Some(&d) = it.peek() { it.next(); if d == '}' { break; } h.push(d); }
                if let Some(ch) = u32::from_str_radix(&h, 16).ok().and_then(char::from_u32) { out.push(ch); }
            }
            Some(o) => { out.push('\\'); out.push(o); }
            None => out.push('\\'),
        }
    }
    out.into_bytes()
}

fn ping_status(dbg: &str) -> String {
    // "Ping { status: Ok }" | "Ping { status: Error(\"..\") }"
    let inner = dbg.trim_start_matches("Ping { status: ").trim_end_matches(" }");
    match inner {
        "Ok" => "ok".into(),
        "Restricted" => "restricted".into(),
        "NoUpdate" => "noupdate".into(),
        e => {
            let t = e.trim_start_matches("Error(\"");
            let t = t.strip_suffix("\")").unwrap_or(t);
            format!("E{}", hexb(&unescape_debug(t)))
        }
    }
}

pub fn dump(r: &Response) -> String {
    let apps: Vec<String> = r.apps.iter().map(|a| {
        let uc = match &a.update_check {
            None => "-".to_string(),
            Some(u) => {
                let man = match &u.manifest {
                    None => "-".to_string(),
                    Some(m) => format!("{{v={},act={},pk={}}}", hexb(m.version.as_bytes()),
                        paren(m.actions.action.iter().map(|x| format!("{{e={},r={},x={}}}", opt_b(&x.event), opt_b(&x.run), extras(&x.extra_attributes))).collect()),
                        paren(m.packages.package.iter().map(|p| format!("{{n={},rq={},sz={},h={},h2={},fp={},x={}}}", hexb(p.name.as_bytes()),
                            if p.required { "t" } else { "f" }, p.size.map(|s| s.to_string()).unwrap_or("-".into()), opt_b(&p.hash), opt_b(&p.hash_sha256),
                            hexb(p.fingerprint.as_bytes()), extras(&p.extra_attributes))).collect())),
                };
                format!("{{st={},info={},urls={},man={},x={},full={}}}", status(&u.status), opt_b(&u.info),
                    u.urls.as_ref().map(|us| paren(us.url.iter().map(|x| hexb(x.codebase.as_bytes())).collect())).unwrap_or("-".into()),
                    man, extras(&u.extra_attributes), paren(u.get_all_full_urls().map(|s| hexb(s.as_bytes())).collect()))
            }
        };
        format!("id={},st={},c={},h={},n={},pg={},ev={},uc={},mv={},x={}", hexb(a.id.as_bytes()), status(&a.status),
            opt_b(&a.cohort.id), opt_b(&a.cohort.hint), opt_b(&a.cohort.name),
            a.ping.as_ref().map(|p| ping_status(&format!("{:?}", p))).unwrap_or("-".into()),
            a.events.as_ref().map(|es| paren(es.iter().map(|e| status(&e.status)).collect())).unwrap_or("-".into()),
            uc, opt_b(&a.get_manifest_version()), extras(&a.extra_attributes))
    }).collect();
    let d = match &r.daystart {
        None => "-".to_string(),
        Some(d) => format!("{}/{}", d.elapsed_days.map(|x| x.to_string()).unwrap_or("-".into()), d.elapsed_seconds.map(|x| x.to_string()).unwrap_or("-".into())),
    };
    format!("ok P={} S={} D={} A=[{}]", hexb(r.protocol_version.as_bytes()), opt_b(&r.server), d, apps.join(";"))
}

pub fn eval(line: &str) -> String {
    let t: Vec<&str> = line.split(' ').filter(|s| !s.is_empty()).collect();
    match t.as_slice() {
        ["parse", h] => {
            let bytes = match h.strip_prefix('x').and_then(|h| hex::decode(h).ok()) { Some(b) => b, None => return "bad-op".into() };
            match parse_json_response(&bytes) {
                Ok(r) => dump(&r),
                Err(_) => "err".into(),
            }
        }
        _ => "bad-op".into(),
    }
}

// ---------------------------------------------------------------------------------------------
// independent document model and writer

#[derive(Clone, Debug)]
pub enum J {
    Null,
    Bool(bool),
    Num(String),
    Str(String),
    Arr(Vec<J>),
    Obj(Vec<(String, J)>),
}

fn ws(rng: &mut Rng, out: &mut Vec<u8>, loose: bool) {
    if loose && rng.chance(1, 4) {
        for _ in 0..1 + rng.below(2) { out.push(*rng.pick(b" \t\n\r")); }
    }
}

fn write_str(rng: &mut Rng, s: &str, out: &mut Vec<u8>, loose: bool) {
    out.push(b'"');
    for c in s.chars() {
        let cp = c as u32;
        let must = c == '"' || c == '\\' || cp < 0x20;
        if must || (loose && rng.chance(1, 6)) {
            match c {
                '"' if rng.chance(1, 2) => out.extend(b"\\\""),
                '\\' if rng.chance(1, 2) => out.extend(b"\\\\"),
                '/' if rng.chance(1, 2) => out.extend(b"\\/"),
                '\n' if rng.chance(1, 2) => out.extend(b"\\n"),
                '\t' if rng.chance(1, 2) => out.extend(b"\\t"),
                '\r' if rng.chance(1, 2) => out.extend(b"\\r"),
                '\u{8}' if rng.chance(1, 2) => out.extend(b"\\b"),
                '\u{c}' if rng.chance(1, 2) => out.extend(b"\\f"),
                _ => {
                    let upper = rng.chance(1, 2);
                    let mut esc = |u: u32| { let h = if upper { format!("\\u{:04X}", u) } else { format!("\\u{:04x}", u) }; out.extend(h.as_bytes()); };
                    if cp >= 0x10000 { let v = cp - 0x10000; esc(0xD800 + (v >> 10)); esc(0xDC00 + (v & 0x3ff)); } else { esc(cp); }
                }
            }
        } else {
            let mut b = [0u8; 4];
            out.extend(c.encode_utf8(&mut b).as_bytes());
        }
    }
    out.push(b'"');
}

pub fn write(rng: &mut Rng, j: &J, out: &mut Vec<u8>, loose: bool) {
    match j {
        J::Null => out.extend(b"null"),
        J::Bool(true) => out.extend(b"true"),
        J::Bool(false) => out.extend(b"false"),
        J::Num(n) => out.extend(n.as_bytes()),
        J::Str(s) => write_str(rng, s, out, loose),
        J::Arr(a) => {
            out.push(b'[');
            for (i, x) in a.iter().enumerate() {
                if i > 0 { out.push(b','); }
                ws(rng, out, loose); write(rng, x, out, loose); ws(rng, out, loose);
            }
            if a.is_empty() { ws(rng, out, loose); }
            out.push(b']');
        }
        J::Obj(m) => {
            out.push(b'{');
            for (i, (k, v)) in m.iter().enumerate() {
                if i > 0 { out.push(b','); }
                ws(rng, out, loose); write_str(rng, k, out, loose); ws(rng, out, loose); out.push(b':'); ws(rng, out, loose);
                write(rng, v, out, loose); ws(rng, out, loose);
            }
            if m.is_empty() { ws(rng, out, loose); }
            out.push(b'}');
        }
    }
}

// ---------------------------------------------------------------------------------------------
// generator of the protocol grammar

const TEXTS: &[&str] = &["", "a", "1:1:", "stable", "integration-test", "q\"uote", "back\\slash", "/slash/", "üñí", "日本語", "😀 astral", "line\nbreak", "tab\t", "\u{7f}", "\u{80}", "\u{fffd}", "{\"json\":1}", "0.1.2.3", "2.0.1.2.3", "UNKNOWN"];
const STATUSES: &[&str] = &["ok", "noupdate", "restricted", "error-unknownApplication", "error-invalidAppId", "error-internal", "OK", "Ok", "", "noUpdate", "error-osnotsupported"];

fn text(rng: &mut Rng) -> String { rng.pick(TEXTS).to_string() }

fn shuffle<T>(rng: &mut Rng, v: &mut Vec<T>) {
    for i in (1..v.len()).rev() { let j = rng.below(i as u64 + 1) as usize; v.swap(i, j); }
}

fn ext_value(rng: &mut Rng, depth: u32) -> J {
    match rng.below(if depth > 2 { 6 } else { 8 }) {
        0 => J::Null, 1 => J::Bool(rng.chance(1, 2)),
        2 => J::Num(rng.pick(&["0", "1", "48810", "4294967295", "4294967296", "18446744073709551615", "-1", "-0", "1.5", "1e3", "0.0", "123456789012"]).to_string()),
        3 | 4 => J::Str(text(rng)),
        5 => J::Str(rng.pick(&["true", "integration-test", "_urgent"]).to_string()),
        6 => J::Arr((0..rng.below(3)).map(|_| ext_value(rng, depth + 1)).collect()),
        _ => J::Obj((0..rng.below(3)).map(|_| (rng.pick(&["b", "a", "zz", "a"]).to_string(), ext_value(rng, depth + 1))).collect()),
    }
}

fn add_ext(rng: &mut Rng, m: &mut Vec<(String, J)>, allowed: bool) {
    // unknown members: preserved where the protocol allows extensions, ignored elsewhere
    let n = if rng.chance(1, 2) { 0 } else { 1 + rng.below(3) };
    for _ in 0..n {
        let k = rng.pick(&["_urgent_update", "ext", "x-attr", "server", "Appid", "zeta", "alpha", "ext"]).to_string();
        let _ = allowed;
        m.push((k, ext_value(rng, 0)));
    }
}

fn status_val(rng: &mut Rng) -> J { J::Str(rng.pick(STATUSES).to_string()) }

fn opt_member(rng: &mut Rng, m: &mut Vec<(String, J)>, k: &str, v: J) {
    match rng.below(6) {
        0 => {}                                   // absent
        1 => m.push((k.to_string(), J::Null)),    // null = absent
        _ => m.push((k.to_string(), v)),
    }
}

fn package(rng: &mut Rng) -> J {
    let mut m = vec![("name".to_string(), J::Str(rng.pick(&["update?hash=deadbeef", "pkg", "", "a/b", "ü"]).to_string())),
        ("required".to_string(), J::Bool(rng.chance(1, 2))), ("fp".to_string(), J::Str(text(rng)))];
    { let v__ = J::Num(rng.pick(&["0", "1", "4294967296", "18446744073709551615", "1024"]).to_string()); opt_member(rng, &mut m, "size", v__) };
    { let v__ = J::Str(text(rng)); opt_member(rng, &mut m, "hash", v__) };
    { let v__ = J::Str(text(rng)); opt_member(rng, &mut m, "hash_sha256", v__) };
    add_ext(rng, &mut m, true);
    shuffle(rng, &mut m);
    J::Obj(m)
}

fn action(rng: &mut Rng) -> J {
    let mut m = vec![];
    { let v__ = J::Str(rng.pick(&["install", "postinstall", "update", ""]).to_string()); opt_member(rng, &mut m, "event", v__) };
    { let v__ = J::Str(text(rng)); opt_member(rng, &mut m, "run", v__) };
    add_ext(rng, &mut m, true);
    shuffle(rng, &mut m);
    J::Obj(m)
}

fn update_check(rng: &mut Rng) -> J {
    let mut m = vec![("status".to_string(), status_val(rng))];
    { let v__ = J::Str(text(rng)); opt_member(rng, &mut m, "info", v__) };
    if rng.chance(2, 3) {
        let urls: Vec<J> = (0..rng.below(3)).map(|_| {
            let mut u = vec![("codebase".to_string(), J::Str(rng.pick(&["http://a/", "fuchsia-pkg://x.com/", "https://b/c?file=", "", "http://nohost"]).to_string()))];
            if rng.chance(1, 4) { u.push(("codebasediff".to_string(), J::Str("ignored".into()))); }
            shuffle(rng, &mut u);
            J::Obj(u) }).collect();
        let mut um = vec![("url".to_string(), J::Arr(urls))];
        if rng.chance(1, 5) { um.push(("extra".to_string(), J::Num("1".into()))); }
        { let v__ = J::Obj(um); opt_member(rng, &mut m, "urls", v__) };
    }
    if rng.chance(2, 3) {
        let mut man = vec![("version".to_string(), J::Str(rng.pick(&["0.1.2.3", "1.2.3.4", "", "v2"]).to_string())),
            ("actions".to_string(), J::Obj(vec![("action".to_string(), J::Arr((0..rng.below(3)).map(|_| action(rng)).collect()))])),
            ("packages".to_string(), J::Obj(vec![("package".to_string(), J::Arr((0..rng.below(3)).map(|_| package(rng)).collect()))]))];
        if rng.chance(1, 5) { man.push(("unknown".to_string(), ext_value(rng, 0))); }
        shuffle(rng, &mut man);
        { let v__ = J::Obj(man); opt_member(rng, &mut m, "manifest", v__) };
    }
    add_ext(rng, &mut m, true);
    shuffle(rng, &mut m);
    J::Obj(m)
}

fn app(rng: &mut Rng) -> J {
    let mut m = vec![("appid".to_string(), J::Str(rng.pick(&["app1", "app2", "{guid}", "", "ünï", "fuchsia:prod"]).to_string())), ("status".to_string(), status_val(rng))];
    for k in ["cohort", "cohorthint", "cohortname"] {
        match rng.below(4) { 0 => {} 1 => m.push((k.to_string(), J::Str("".into()))), 2 => m.push((k.to_string(), J::Null)), _ => m.push((k.to_string(), J::Str(text(rng)))) }
    }
    { let v__ = J::Obj(vec![("status".to_string(), J::Str(rng.pick(&["ok", "noupdate", "restricted", "error-foo", "OK", ""]).to_string()))]); opt_member(rng, &mut m, "ping", v__) };
    if rng.chance(3, 4) { { let v__ = update_check(rng); opt_member(rng, &mut m, "updatecheck", v__) }; }
    { let v__ = J::Arr((0..rng.below(3)).map(|_| J::Obj(vec![("status".to_string(), status_val(rng))])).collect()); opt_member(rng, &mut m, "event", v__) };
    add_ext(rng, &mut m, true);
    shuffle(rng, &mut m);
    J::Obj(m)
}

pub fn response_doc(rng: &mut Rng) -> J {
    let mut m = vec![("protocol".to_string(), J::Str(rng.pick(&["3.0", "3.1", "2.0", ""]).to_string())),
        ("app".to_string(), J::Arr((0..rng.below(4)).map(|_| app(rng)).collect()))];
    { let v__ = J::Str(rng.pick(&["prod", "", "ünï"]).to_string()); opt_member(rng, &mut m, "server", v__) };
    let mut d = vec![];
    { let v__ = J::Num(rng.pick(&["0", "4775", "4294967295", "1"]).to_string()); opt_member(rng, &mut d, "elapsed_days", v__) };
    { let v__ = J::Num(rng.pick(&["0", "48810", "4294967295", "86399"]).to_string()); opt_member(rng, &mut d, "elapsed_seconds", v__) };
    if rng.chance(1, 5) { d.push(("elapsed_minutes".to_string(), J::Num("7".into()))); }
    { let v__ = J::Obj(d); opt_member(rng, &mut m, "daystart", v__) };
    if rng.chance(1, 4) { m.push(("unknown_top".to_string(), ext_value(rng, 0))); }
    shuffle(rng, &mut m);
    let mut w = vec![("response".to_string(), J::Obj(m))];
    if rng.chance(1, 8) { w.push(("other".to_string(), ext_value(rng, 0))); shuffle(rng, &mut w); }
    J::Obj(w)
}

// structural mutations on the tree --------------------------------------------------------------

fn paths(j: &J, cur: &mut Vec<usize>, out: &mut Vec<Vec<usize>>) {
    out.push(cur.clone());
    match j {
        J::Arr(a) => for (i, x) in a.iter().enumerate() { cur.push(i); paths(x, cur, out); cur.pop(); },
        J::Obj(m) => for (i, (_, x)) in m.iter().enumerate() { cur.push(i); paths(x, cur, out); cur.pop(); },
        _ => {}
    }
}

fn at<'a>(j: &'a mut J, p: &[usize]) -> &'a mut J {
    if p.is_empty() { return j; }
    match j {
        J::Arr(a) => at(&mut a[p[0]], &p[1..]),
        J::Obj(m) => at(&mut m[p[0]].1, &p[1..]),
        _ => j,
    }
}

fn mutate(rng: &mut Rng, doc: &mut J) -> &'static str {
    let mut ps = vec![]; paths(doc, &mut vec![], &mut ps);
    let p = rng.pick(&ps).clone();
    let node = at(doc, &p);
    match rng.below(9) {
        0 => { if let J::Obj(m) = node { if !m.is_empty() { let i = rng.below(m.len() as u64) as usize; m.remove(i); return "drop-member"; } } "noop" }
        1 => { if let J::Obj(m) = node { if !m.is_empty() { let i = rng.below(m.len() as u64) as usize; let e = m[i].clone(); let at_ = rng.below(m.len() as u64 + 1) as usize; m.insert(at_, e); return "duplicate-member"; } } "noop" }
        2 => { *node = match rng.below(7) { 0 => J::Null, 1 => J::Bool(true), 2 => J::Num("5".into()), 3 => J::Str("x".into()), 4 => J::Arr(vec![]), 5 => J::Obj(vec![]), _ => J::Num("-1".into()) }; "retype" }
        3 => { if let J::Obj(m) = node { if !m.is_empty() { let i = rng.below(m.len() as u64) as usize; let mut v = m[i].1.clone(); if let J::Str(s) = &mut v { s.push('!'); } let k = m[i].0.clone(); m.push((k, v)); return "duplicate-changed"; } } "noop" }
        4 => { if let J::Num(n) = node { *n = rng.pick(&["4294967296", "18446744073709551616", "-1", "1.0", "1e2", "00", "0x10", "+1", "1.", ".5", "1e", "-"]).to_string(); return "number-edge"; } "noop" }
        5 => { if let J::Obj(m) = node { if !m.is_empty() { let i = rng.below(m.len() as u64) as usize; m[i].0 = m[i].0.to_uppercase(); return "key-case"; } } "noop" }
        6 => { if let J::Str(s) = node { *s = rng.pick(&["ok", "OK", "noupdate", "\u{0}", "\u{d7ff}", "\u{e000}"]).to_string(); return "string-edge"; } "noop" }
        7 => { if let J::Arr(a) = node { if !a.is_empty() { let e = a[0].clone(); a.push(e); return "array-grow"; } } "noop" }
        _ => { if let J::Obj(m) = node { m.push((rng.pick(&["status", "appid", "cohort", "name", "url", "app", "protocol"]).to_string(), J::Str("injected".into()))); return "inject-known-key"; } "noop" }
    }
}

/// The very deep documents of section 6: `kind` = where the nesting sits, `shape` = what nests.
pub fn deep_doc(kind: &str, depth: usize, shape: &str) -> Vec<u8> {
    let (open, close) = if shape == "arr" { ("[", "]") } else { ("{\"a\":", "}") };
    let closed = !kind.ends_with("-open");
    let inner = format!("{}{}", open.repeat(depth), if closed { format!("1{}", close.repeat(depth)) } else { String::new() });
    match kind.trim_end_matches("-open") {
        "ignored" => format!("{{\"response\":{{\"protocol\":\"3.0\",\"app\":[],\"deep\":{}{}", inner, if closed { "}}" } else { "" }),
        "extension" => format!("{{\"response\":{{\"protocol\":\"3.0\",\"app\":[{{\"appid\":\"a\",\"status\":\"ok\",\"deep\":{}{}", inner, if closed { "}]}}" } else { "" }),
        "prefixed" => format!(")]}}'\n{{\"response\":{{\"protocol\":\"3.0\",\"app\":[{{\"appid\":\"a\",\"status\":\"ok\",\"updatecheck\":{{\"status\":\"ok\",\"deep\":{}{}", inner, if closed { "}}]}}" } else { "" }),
        _ => inner,
    }.into_bytes()
}

pub fn deep_child(kind: &str, depth: usize, shape: &str) {
    let doc = deep_doc(kind, depth, shape);
    let t = std::thread::Builder::new().stack_size(256 * 1024).spawn(move || {
        let r = std::panic::catch_unwind(|| parse_json_response(&doc).is_ok());
        match r { Ok(_) => "survives", Err(_) => "panic" }
    }).expect("spawn");
    println!("{}", t.join().unwrap_or("panic"));
}

pub fn run(o: &Opts, rng: &mut Rng) -> Sink {
    let mut sink = Sink::new("resp");
    let push = |sink: &mut Sink, bytes: Vec<u8>, class: Option<String>, tag: &str| {
        sink.bump(&format!("gen:{}", tag));
        let input = format!("parse {}", hexb(&bytes));
        let i2 = input.clone();
        sink.case(input, class, move || eval(&i2));
    };
    for l in crate::corpus_lines(o, "resp") {
        sink.bump("gen:corpus");
        let l2 = l.clone();
        sink.case(l.clone(), Some(l), move || eval(&l2));
    }
    if o.only_corpus { return sink; }
    let n = if o.thorough { 60_000 } else { 2_500 };
    for _ in 0..n {
        let doc = response_doc(rng);
        let loose = rng.chance(1, 2);
        let mut bytes = vec![];
        write(rng, &doc, &mut bytes, loose);
        let napps = if let J::Obj(w) = &doc { w.iter().find(|(k, _)| k == "response").map(|(_, r)| if let J::Obj(m) = r { m.iter().find(|(k, _)| k == "app").map(|(_, a)| if let J::Arr(a) = a { a.len() } else { 0 }).unwrap_or(0) } else { 0 }).unwrap_or(0) } else { 0 };
        let cls = |tag: &str, bytes: &Vec<u8>| Some(format!("{}/apps{}/len{}", tag, napps, bytes.len() / 64));
        // 1. well-formed document (with and without the anti-XSSI prefix)
        let mut b = bytes.clone();
        if rng.chance(1, 3) { let mut p = b")]}'\n".to_vec(); p.extend(&b); b = p; }
        if rng.chance(1, 6) { b.extend(rng.pick(&[&b" "[..], b"\n", b"\r\n\t"]).iter()); }
        push(&mut sink, b, cls("wellformed", &bytes), "wellformed");
        // 2. structural mutation(s)
        let mut d2 = doc.clone();
        let mut tags = vec![];
        for _ in 0..1 + rng.below(2) { tags.push(mutate(rng, &mut d2)); }
        let mut b2 = vec![];
        write(rng, &d2, &mut b2, loose);
        push(&mut sink, b2, Some(format!("mut/{}/apps{}", tags.join("+"), napps)), &format!("mut-{}", tags[0]));
        // 3. byte-level damage
        match rng.below(6) {
            0 => { let k = rng.below(bytes.len() as u64 + 1) as usize; push(&mut sink, bytes[..k].to_vec(), Some(format!("truncate/{}", k * 8 / (bytes.len() + 1))), "truncate"); }
            1 => { let mut b = bytes.clone(); let i = rng.below(b.len() as u64 * 8) as usize; b[i / 8] ^= 1 << (i % 8); push(&mut sink, b, Some(format!("bitflip/{}", i % 8)), "bitflip"); }
            2 => { let mut b = bytes.clone(); b.extend(rng.pick(&[&b"x"[..], b"{}", b",", b"\0", b"\xef\xbb\xbf"]).iter()); push(&mut sink, b, Some("trailing".into()), "trailing"); }
            3 => { let variants: [&[u8]; 6] = [b")]}'\n)]}'\n", b")]}'", b")]}'\r\n", b"\xef\xbb\xbf", b" )]}'\n", b")]}'\n "]; let v = rng.pick(&variants); let mut b = v.to_vec(); b.extend(&bytes); push(&mut sink, b, Some(format!("prefix-variant/{}", v.len())), "prefix-variant"); }
            4 => { let mut b = bytes.clone(); let i = rng.below(b.len() as u64) as usize; b[i] = *rng.pick(&[0x00u8, 0x1f, 0x22, 0x5c, 0x80, 0xc0, 0xff, 0x7b, 0x5d]); push(&mut sink, b, Some(format!("bytepoke/{:02x}", i % 7)), "bytepoke"); }
            _ => { let k = rng.below(40) as usize; push(&mut sink, rng.bytes(k), Some(format!("random/{}", k)), "random"); }
        }
    }
    // 4. escapes and surrogates in a fixed frame
    let esc: [&str; 12] = ["\\ud83d\\ude00", "\\ud83d", "\\ude00", "\\ud83dx", "\\u00e9", "\\u0000", "\\x41", "\\u12", "\\/", "\\ud800\\u0041", "\\uDBFF\\uDFFF", "\\u"];
    for e in esc {
        for frame in ["{\"response\":{\"protocol\":\"3.0\",\"server\":\"@\",\"app\":[]}}", "{\"response\":{\"protocol\":\"3.0\",\"app\":[],\"ignored\":\"@\"}}", "{\"response\":{\"protocol\":\"3.0\",\"app\":[{\"appid\":\"a\",\"status\":\"ok\",\"ext\":\"@\"}]}}"] {
            let doc = frame.replace('@', e);
            push(&mut sink, doc.into_bytes(), Some(format!("escape/{}/{}", e, frame.len())), "escape");
        }
    }
    // 5. nesting (the deep ones are run in this process: serde_json is iterative for skipped values
    // and depth-limited for materialised ones; 10 000 levels as in the design)
    for depth in [1usize, 10, 90, 100, 126, 127, 128, 129, 200, 10_000] {
        for (open, close) in [("[", "]"), ("{\"a\":", "}")] {
            let inner = format!("{}1{}", open.repeat(depth), close.repeat(depth));
            let ign = format!("{{\"response\":{{\"protocol\":\"3.0\",\"app\":[],\"deep\":{}}}}}", inner);
            push(&mut sink, ign.into_bytes(), Some(format!("deep-ignored/{}/{}", depth, open.len())), "deep");
            let ext = format!("{{\"response\":{{\"protocol\":\"3.0\",\"app\":[{{\"appid\":\"a\",\"status\":\"ok\",\"deep\":{}}}]}}}}", inner);
            push(&mut sink, ext.into_bytes(), Some(format!("deep-extension/{}/{}", depth, open.len())), "deep");
            push(&mut sink, inner.into_bytes(), Some(format!("deep-top/{}/{}", depth, open.len())), "deep");
        }
    }
    // 6. nesting far beyond any stack (100 000 and 1 000 000 levels, closed or cut off), each document parsed in a
    // child process on a 256 KiB stack: the parser must come back (with an error or a value), not overflow
    if !o.only_corpus {
        let exe = std::env::current_exe().expect("exe");
        for depth in [100_000usize, 1_000_000] {
            for kind in ["ignored", "extension", "prefixed", "top", "ignored-open", "extension-open", "prefixed-open", "top-open"] {
                for shape in ["arr", "obj"] {
                    sink.bump("gen:deep-child");
                    let input = format!("deepparse {} {} {}", kind, depth, shape);
                    let exe = exe.clone();
                    sink.case(input, Some(format!("deepchild/{}/{}/{}", kind, depth, shape)), move || {
                        match std::process::Command::new(&exe).args(["deepchild", kind, &depth.to_string(), shape]).output() {
                            Ok(out) if out.status.success() => String::from_utf8_lossy(&out.stdout).trim().to_string(),
                            Ok(_) => "crash".to_string(),          // killed by a signal: stack overflow
                            Err(_) => "spawn-failed".to_string(),
                        }
                    });
                }
            }
        }
    }
    sink
}
