//! stream `mock`: `mock_omaha_server::handle_request` called in-process with requests built by the
//! real `RequestBuilder` (+ `StandardCupv2Handler`), the reply parsed by the real client parser and
//! verified by the real CUP verifier, vs `Omaha.Mock` + `Omaha.Response` + `Omaha.Cup`.

use crate::out::{hexb, Sink};
use crate::rng::Rng;
use crate::streams::cup::{err_name, pub_xy, signing_key};
use crate::Opts;
use futures::executor::block_on;
use mock_omaha_server::{OmahaResponse, OmahaServer, OmahaServerBuilder, PrivateKeyAndId, PrivateKeys, ResponseAndMetadata, UpdateCheckAssertion};
use omaha_client::common::App;
use omaha_client::configuration::{Config, Updater};
use omaha_client::cup_ecdsa::{Cupv2RequestHandler, PublicKeyAndId, PublicKeys, RequestMetadata, StandardCupv2Handler};
use omaha_client::protocol::request::{Event, EventResult, EventType, InstallSource, OS};
use omaha_client::protocol::response::parse_json_response;
use omaha_client::protocol::Cohort;
use omaha_client::request_builder::{RequestBuilder, RequestParams};
use omaha_client::version::Version;
use std::collections::HashMap;

const APP_IDS: &[&str] = &["system-image", "firmware", "recovery", "app:1", "zeta", "Alpha", "m"];
const KIND: &[(&str, OmahaResponse)] = &[("noupdate", OmahaResponse::NoUpdate), ("update", OmahaResponse::Update), ("urgent", OmahaResponse::UrgentUpdate),
    ("invalid", OmahaResponse::InvalidResponse), ("invalidurl", OmahaResponse::InvalidURL)];

fn opt_hex(o: &Option<String>) -> String { o.as_ref().map(|s| hexb(s.as_bytes())).unwrap_or("-".into()) }

fn verify_tok(r: Result<(), omaha_client::cup_ecdsa::CupVerificationError>) -> String {
    match r { Ok(()) => "ok".into(), Err(e) => format!("err:{}", err_name(&e)) }
}

pub type RespEntry = (String, &'static str, OmahaResponse, bool, Option<String>, Option<String>, String, String);

pub struct ServerCfg { pub resp: Vec<RespEntry>,
    pub latest: (u64, usize), pub hist: Vec<(u64, usize)>, pub etag_override: Option<String>, pub require_cup: bool,
    /// when set: the server starts out with these responses and is then reconfigured to `resp` through its own
    /// `/set_responses_by_appid` handler before the case's request is sent
    pub prev: Option<Vec<RespEntry>> }

fn resp_tok(resp: &[RespEntry]) -> String {
    if resp.is_empty() { "-".into() } else { resp.iter().map(|(id, kt, _, ad, ver, coh, cb, pkg)| format!("{}~{}~{}~{}~{}~{}~{}", hexb(id.as_bytes()), kt, *ad as u8, opt_hex(ver), opt_hex(coh), hexb(cb.as_bytes()), hexb(pkg.as_bytes()))).collect::<Vec<_>>().join(";") }
}

impl ServerCfg {
    pub fn build(&self) -> OmahaServer {
        let Some(prev) = &self.prev else { return self.build_with(&self.resp); };
        // start with the previous configuration, then reconfigure over the server's own handler
        let server = tokio::sync::Mutex::new(self.build_with(prev));
        let body = self.reconf_json();
        let req = hyper::Request::builder().method("POST").uri("/set_responses_by_appid").body(hyper::Body::from(body)).unwrap();
        let r = block_on(mock_omaha_server::handle_request(req, &server)).expect("set_responses");
        assert_eq!(r.status(), http::StatusCode::OK);
        server.into_inner()
    }
    /// The body of the `/set_responses_by_appid` request that configures `resp`.
    pub fn reconf_json(&self) -> Vec<u8> { Self::json_of(&self.resp) }
    pub fn json_of(resp: &[RespEntry]) -> Vec<u8> {
        let kind_name = |k: &OmahaResponse| match k { OmahaResponse::NoUpdate => "NoUpdate", OmahaResponse::Update => "Update", OmahaResponse::UrgentUpdate => "UrgentUpdate",
            OmahaResponse::InvalidResponse => "InvalidResponse", OmahaResponse::InvalidURL => "InvalidURL" };
        // absent assertions are left out of the JSON (as a hand-written configuration would), not written as null
        let body: serde_json::Map<String, serde_json::Value> = resp.iter().map(|(id, _, k, ad, ver, coh, cb, pkg)| {
            let mut m = serde_json::Map::new();
            m.insert("response".into(), kind_name(k).into());
            m.insert("check_assertion".into(), (if *ad { "UpdatesDisabled" } else { "UpdatesEnabled" }).into());
            if let Some(v) = ver { m.insert("version".into(), v.clone().into()); }
            if let Some(c) = coh { m.insert("cohort_assertion".into(), c.clone().into()); }
            m.insert("codebase".into(), cb.clone().into());
            m.insert("package_name".into(), pkg.clone().into());
            (id.clone(), serde_json::Value::Object(m))
        }).collect();
        serde_json::to_vec(&body).unwrap()
    }
    pub fn build_with(&self, resp: &[RespEntry]) -> OmahaServer {
        let map: HashMap<String, ResponseAndMetadata> = resp.iter().map(|(id, _, k, ad, ver, coh, cb, pkg)| (id.clone(), ResponseAndMetadata {
            response: *k, check_assertion: if *ad { UpdateCheckAssertion::UpdatesDisabled } else { UpdateCheckAssertion::UpdatesEnabled },
            version: ver.clone(), cohort_assertion: coh.clone(), codebase: cb.clone(), package_name: pkg.clone() })).collect();
        OmahaServerBuilder::default().responses_by_appid(map)
            .private_keys(PrivateKeys { latest: PrivateKeyAndId { id: self.latest.0, key: signing_key(self.latest.1) },
                historical: self.hist.iter().map(|(i, k)| PrivateKeyAndId { id: *i, key: signing_key(*k) }).collect() })
            .etag_override(self.etag_override.clone()).require_cup(self.require_cup).build().unwrap()
    }
    pub fn tok(&self) -> String {
        format!("resp={}{} latest={}/{} hist={} override={} reqcup={}",
            resp_tok(&self.resp), self.prev.as_ref().map(|p| format!(" prev={}", resp_tok(p))).unwrap_or_default(),
            self.latest.0, self.latest.1, if self.hist.is_empty() { "-".into() } else { self.hist.iter().map(|(i, k)| format!("{}/{}", i, k)).collect::<Vec<_>>().join(",") },
            opt_hex(&self.etag_override), self.require_cup as u8)
    }
}

/// One request over a real TCP connection to the server started with `OmahaServer::start`: the connection is opened and
/// used (a reconfiguration to the server's *previous* responses, which changes nothing) before the server is reconfigured to
/// its final responses over a second connection; the case's request then goes out on the first, kept-alive connection.
/// Returns (status, ETag, body), or None when the server closed the connection without an answer (a panic in the handler).
pub fn tcp_exchange(cfg: &ServerCfg, origin: &str, req_body: &[u8]) -> Result<Option<(u16, Option<Vec<u8>>, Vec<u8>)>, String> {
    use tokio::io::{AsyncReadExt, AsyncWriteExt};
    let prev = cfg.prev.clone().ok_or("no previous configuration")?;
    let rt = tokio::runtime::Builder::new_current_thread().enable_all().build().map_err(|e| e.to_string())?;
    rt.block_on(async {
        let arc = std::sync::Arc::new(tokio::sync::Mutex::new(cfg.build_with(&prev)));
        let (addr, _task) = OmahaServer::start(arc.clone(), None).await.map_err(|e| e.to_string())?;
        let hostport = addr.trim_start_matches("http://").trim_end_matches('/').to_string();
        async fn roundtrip(conn: &mut tokio::net::TcpStream, path: &str, body: &[u8]) -> Result<Option<(u16, Option<Vec<u8>>, Vec<u8>)>, String> {
            let head = format!("POST {} HTTP/1.1\r\nHost: mock\r\nContent-Type: application/json\r\nContent-Length: {}\r\n\r\n", path, body.len());
            conn.write_all(head.as_bytes()).await.map_err(|e| e.to_string())?;
            conn.write_all(body).await.map_err(|e| e.to_string())?;
            let mut buf: Vec<u8> = vec![];
            let mut tmp = [0u8; 4096];
            loop {
                if let Some(p) = buf.windows(4).position(|w| w == b"\r\n\r\n") {
                    let head = String::from_utf8_lossy(&buf[..p]).to_string();
                    let status: u16 = head.split(' ').nth(1).and_then(|x| x.parse().ok()).ok_or("bad status line")?;
                    let mut etag = None; let mut clen = 0usize;
                    for l in head.split("\r\n").skip(1) {
                        if let Some((k, v)) = l.split_once(':') {
                            if k.eq_ignore_ascii_case("etag") { etag = Some(v.trim_start().as_bytes().to_vec()); }
                            if k.eq_ignore_ascii_case("content-length") { clen = v.trim().parse().map_err(|_| "bad content-length")?; }
                        }
                    }
                    while buf.len() < p + 4 + clen {
                        let n = conn.read(&mut tmp).await.map_err(|e| e.to_string())?;
                        if n == 0 { return Ok(None); }
                        buf.extend_from_slice(&tmp[..n]);
                    }
                    return Ok(Some((status, etag, buf[p + 4..p + 4 + clen].to_vec())));
                }
                let n = match conn.read(&mut tmp).await { Ok(n) => n, Err(_) => return Ok(None) };
                if n == 0 { return Ok(None); }
                buf.extend_from_slice(&tmp[..n]);
            }
        }
        let mut c1 = tokio::net::TcpStream::connect(&hostport).await.map_err(|e| e.to_string())?;
        let warm = roundtrip(&mut c1, "/set_responses_by_appid", &ServerCfg::json_of(&prev)).await?;
        if warm.map(|w| w.0) != Some(200) { return Err("warm-up request failed".into()); }
        let mut c2 = tokio::net::TcpStream::connect(&hostport).await.map_err(|e| e.to_string())?;
        let rc = roundtrip(&mut c2, "/set_responses_by_appid", &cfg.reconf_json()).await?;
        if rc.map(|w| w.0) != Some(200) { return Err("reconfiguration failed".into()); }
        roundtrip(&mut c1, origin, req_body).await
    })
}

pub fn gen_server(rng: &mut Rng, ids: &[String], versions: &[String]) -> ServerCfg {
    let mut resp = vec![];
    for (i, id) in ids.iter().enumerate() {
        let (kt, k) = *rng.pick(KIND);
        let ver = match rng.below(4) { 0 => None, 1 if rng.chance(1, 6) => Some("9.9.9.9".to_string()), _ => Some(versions[i].clone()) };
        resp.push((id.clone(), kt, k, false, ver, None, rng.pick(&["fuchsia-pkg://integration.test.fuchsia.com/", "http://cb/", "q\"uote\\/"]).to_string(),
            rng.pick(&["update?hash=deadbeef", "pkg", "ünï\tpkg"]).to_string()));
    }
    let kid = *rng.pick(&[1u64, 42, 7, u64::MAX]);
    let hist: Vec<(u64, usize)> = (0..rng.below(3)).map(|j| (*rng.pick(&[2u64, 42, 7, 100 + j]), rng.below(4) as usize)).collect();
    // a third of the servers reach their configuration through a reconfiguration: the same ids (one possibly missing, one
    // possibly extra) with other decisions, flipped updates-disabled assertions, other version / cohort assertions
    let prev = if rng.chance(1, 3) {
        let mut p: Vec<RespEntry> = resp.iter().map(|r| { let (kt, k) = *rng.pick(KIND);
            (r.0.clone(), kt, k, !r.3 || rng.chance(1, 2), if rng.chance(1, 2) { Some("7.7.7.7".to_string()) } else { None }, if rng.chance(1, 2) { Some("old-cohort".to_string()) } else { None }, "http://old/".to_string(), "oldpkg".to_string()) }).collect();
        if rng.chance(1, 4) { p.pop(); }
        if rng.chance(1, 4) { p.push(("gone-app".into(), "update", OmahaResponse::Update, true, None, None, "c".into(), "p".into())); }
        Some(p)
    } else { None };
    ServerCfg { resp, latest: (kid, rng.below(4) as usize), hist, etag_override: if rng.chance(1, 8) { Some(rng.pick(&["abc:def", "W/\"00:11\"", "\""]).to_string()) } else { None }, require_cup: rng.chance(1, 10), prev }
}

pub fn run(o: &Opts, rng: &mut Rng) -> Sink {
    let mut sink = Sink::new("mock");
    if o.only_corpus { return sink; }
    let n = if o.thorough { 20_000 } else { 1_500 };
    for _ in 0..n {
        // the client's app set
        let napps = 1 + rng.below(4) as usize;
        let mut pool: Vec<&str> = APP_IDS.to_vec();
        let mut apps: Vec<App> = vec![];
        for _ in 0..napps {
            let id = pool.remove(rng.below(pool.len() as u64) as usize);
            let ver = *rng.pick(&[[1u32, 2, 3, 4], [0, 1, 2, 3], [20, 0, 0, 1]]);
            let mut a = App::builder().id(id).version(ver).build();
            a.cohort = Cohort { id: if rng.chance(1, 2) { Some(rng.pick(&["1:1:", "stable", ""]).to_string()) } else { None }, hint: None, name: None };
            apps.push(a);
        }
        let ids: Vec<String> = apps.iter().map(|a| a.id.clone()).collect();
        let versions: Vec<String> = apps.iter().map(|a| a.version.to_string()).collect();
        let mut server = gen_server(rng, &ids, &versions);
        // configuration mismatches now and then: an app the server does not know, an extra configured app, nothing configured
        match rng.below(20) { 0 => { server.resp.pop(); } 1 => { server.resp.push(("extra-app".into(), "noupdate", OmahaResponse::NoUpdate, false, None, None, "c".into(), "p".into())); } 2 => { server.resp.clear(); } _ => {} }
        let params = RequestParams { source: if rng.chance(1, 2) { InstallSource::OnDemand } else { InstallSource::ScheduledTask }, use_configured_proxies: true,
            disable_updates: rng.chance(1, 5), offer_update_if_same_version: rng.chance(1, 5) };
        if rng.chance(9, 10) { let d = params.disable_updates; for r in server.resp.iter_mut() { r.3 = d; } } else { for r in server.resp.iter_mut() { r.3 = rng.chance(1, 2); } }
        if rng.chance(1, 6) { let wrong = rng.chance(1, 4); for (r, a) in server.resp.iter_mut().zip(apps.iter()) { r.5 = if !wrong { a.cohort.id.clone() } else { Some("other".into()) }; } }
        let url = rng.pick(&["http://example.com/", "http://example.com/svc", "http://example.com/svc?x=1", "http://example.com/?a=b&c=d", "https://h:8443/a/b?cup2key=7:00", "http://example.com/?cup2key"]).to_string();
        let config = Config { updater: Updater { name: "updater".into(), version: Version::from([1, 2, 3, 4]) },
            os: OS { platform: "p".into(), version: "v".into(), service_pack: "".into(), arch: "a".into() }, service_url: url.clone(), omaha_public_keys: None };
        // the client's CUP configuration: none, the server's latest key, one of its historical keys, an unknown id, a known id with another key pair
        let client: Option<(u64, usize)> = match rng.below(6) {
            0 => None,
            1 | 2 => Some(server.latest),
            3 if !server.hist.is_empty() => Some(*rng.pick(&server.hist)),
            4 => Some((999, 0)),
            _ => Some((server.latest.0, (server.latest.1 + 1) % 4)),
        };
        // per app: an update check (with a ping), an event report, or both in one entry (Omaha allows it; the builder makes it
        // with `add_update_check` + `add_event` on the same app); per request: all alike, or mixed
        let req_mode = rng.below(6);
        let app_modes: Vec<u8> = apps.iter().map(|_| match req_mode { 0 | 1 | 2 => 0u8, 3 => 1, 4 => 2, _ => rng.below(3) as u8 }).collect();
        let handler = client.map(|(kid, kidx)| StandardCupv2Handler::new(&PublicKeys { latest: PublicKeyAndId { id: kid, key: signing_key(kidx).verifying_key() }, historical: vec![] }));
        let mut b = RequestBuilder::new(&config, &params);
        for (a, m) in apps.iter().zip(app_modes.iter()) {
            let ev = Event { event_type: EventType::UpdateComplete, event_result: EventResult::Success, ..Event::default() };
            match m {
                1 => { b = b.add_event(a, ev); }
                2 => { b = b.add_update_check(a).add_event(a, ev); }
                _ => { b = b.add_update_check(a).add_ping(a); }
            }
        }
        let built = b.build(handler.as_ref());
        let Ok((req, meta)) = built else { continue; };
        let (parts, body) = req.into_parts();
        let req_body = block_on(hyper::body::to_bytes(body)).unwrap().to_vec();
        // what a transport delivers to the server: origin form
        let origin = parts.uri.path_and_query().map(|p| p.to_string()).unwrap_or("/".into());
        let apps_tok: Vec<String> = apps.iter().zip(app_modes.iter()).map(|(a, m)| format!("{}~{}~{}~{}~{}", hexb(a.id.as_bytes()), hexb(a.version.to_string().as_bytes()),
            if *m == 1 { "-".to_string() } else { (params.disable_updates as u8).to_string() }, opt_hex(&a.cohort.id), (*m != 0) as u8)).collect();
        let omaha = server.build();
        let mtx = tokio::sync::Mutex::new(omaha);
        let sreq = hyper::Request::builder().method("POST").uri(origin.clone()).body(hyper::Body::from(req_body.clone())).unwrap();
        let res = std::panic::catch_unwind(std::panic::AssertUnwindSafe(|| block_on(mock_omaha_server::handle_request(sreq, &mtx))));
        let mut input = format!("{} uri={} apps={}", server.tok(), hexb(origin.as_bytes()), apps_tok.join(";"));
        let class = format!("{}/{}/{}/{}/{}", napps, client.map(|c| if c == server.latest { "latest" } else if server.hist.contains(&c) { "hist" } else if c.0 == 999 { "unknown" } else { "wrongkey" }).unwrap_or("nocup"),
            url.len(), app_modes.iter().map(|m| m.to_string()).collect::<String>(), server.resp.iter().map(|r| &r.1[..2]).collect::<Vec<_>>().join(""));
        let output: String;
        match res {
            Err(_) => { input += " client=-"; output = "panic".into(); }
            Ok(Err(_)) => { input += " client=-"; output = "error".into(); }
            Ok(Ok(resp)) => {
                let status = resp.status();
                let etag: Option<Vec<u8>> = resp.headers().get(http::header::ETAG).map(|v| v.as_bytes().to_vec());
                let headers = resp.headers().clone();
                let rbody = block_on(hyper::body::to_bytes(resp.into_body())).unwrap().to_vec();
                if status == http::StatusCode::INTERNAL_SERVER_ERROR && rbody.is_empty() { input += " client=-"; output = "status500".into(); }
                else {
                    let etag_tok = match (&server.etag_override, &etag) { (Some(o), Some(e)) if o.as_bytes() == &e[..] => format!("override:{}", hexb(e)), (_, Some(_)) => "signed".into(), (_, None) => "none".into() };
                    let parse = match parse_json_response(&rbody) { Ok(r) => crate::streams::resp::dump(&r), Err(_) => "err".into() };
                    match (&handler, &meta, client) {
                        (Some(h), Some(m), Some((kid, kidx))) => {
                            let mk = |rb: &[u8]| { let mut r = hyper::Response::builder().status(200); for (k, v) in headers.iter() { r = r.header(k, v); } r.body(rb.to_vec()).unwrap() };
                            let real = verify_tok(h.verify_response(m, &mk(&rbody), kid).map(|_| ()));
                            let nonce: [u8; 32] = m.nonce.into();
                            // the same ETag against other exchanges: another response body, another nonce, another request body
                            let mut other_body = rbody.clone(); other_body.push(b' ');
                            let o1 = verify_tok(h.verify_response(m, &mk(&other_body), kid).map(|_| ()));
                            let mut n2 = nonce; n2[31] ^= 1;
                            let m2 = RequestMetadata { request_body: m.request_body.clone(), public_key_id: m.public_key_id, nonce: n2.into() };
                            let o2 = verify_tok(h.verify_response(&m2, &mk(&rbody), kid).map(|_| ()));
                            let mut rb2 = m.request_body.clone(); rb2.push(b' ');
                            let m3 = RequestMetadata { request_body: rb2, public_key_id: m.public_key_id, nonce: nonce.into() };
                            let o3 = verify_tok(h.verify_response(&m3, &mk(&rbody), kid).map(|_| ()));
                            let pk = pub_xy(&signing_key(kidx).verifying_key());
                            input += &format!(" client={}/{} keys={}:{}:{} reqbody={} nonce={} etag={}", kid, kidx, kid, pk.0, pk.1, hexb(&req_body), hexb(&nonce), etag.as_ref().map(|e| hexb(e)).unwrap_or("-".into()));
                            let other = if real == "ok" { format!("{},{},{}", o1, o2, o3) } else { "-".to_string() };
                            output = format!("ok body={} etag={} verify={} other={} lean={} parse={}", hexb(&rbody), etag_tok, real, other, real, parse);
                        }
                        _ => { input += " client=-"; output = format!("ok body={} etag={} verify=- other=- lean=- parse={}", hexb(&rbody), etag_tok, parse); }
                    }
                }
            }
        }
        sink.bump(&format!("result:{}", output.split(' ').next().unwrap()));
        // the same exchange over a real, kept-alive TCP connection to `OmahaServer::start` (client part left out)
        let tcp_case = if server.prev.is_some() && rng.chance(1, if o.thorough { 4 } else { 6 }) {
            let base: String = input.split(" client=").next().unwrap().to_string();
            let out = match std::panic::catch_unwind(std::panic::AssertUnwindSafe(|| tcp_exchange(&server, &origin, &req_body))) {
                Err(_) => "harness-panic".to_string(),
                Ok(Err(e)) => format!("tcp-error:{}", e.replace(' ', "_")),
                Ok(Ok(None)) => "panic".to_string(),
                Ok(Ok(Some((status, etag, rbody)))) => {
                    if status == 500 && rbody.is_empty() { "status500".to_string() } else {
                        let etag_tok = match (&server.etag_override, &etag) { (Some(o), Some(e)) if o.as_bytes() == &e[..] => format!("override:{}", hexb(e)), (_, Some(_)) => "signed".into(), (_, None) => "none".into() };
                        let parse = match parse_json_response(&rbody) { Ok(r) => crate::streams::resp::dump(&r), Err(_) => "err".into() };
                        format!("ok body={} etag={} verify=- other=- lean=- parse={}", hexb(&rbody), etag_tok, parse)
                    }
                }
            };
            Some((format!("{} client=- via=tcp-keepalive", base), out, format!("tcp/{}", class)))
        } else { None };
        sink.case(input, Some(class), move || output);
        if let Some((i, out, c)) = tcp_case { sink.bump("gen:tcp-keepalive"); sink.case(i, Some(c), move || out); }
    }
    sink
}
