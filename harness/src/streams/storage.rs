//! stream `storage`: operation sequences on the repository's `MemStorage` through the `Storage` / `StorageExt`
//! traits (typed set / get / remove / commit, `set_option_int`, `set_time`, `get_time`) vs the model's `Store`
//! (the view semantics the state-machine model relies on: the last write wins, a removal hides the key, a value
//! read with another type is absent, times are stored as microseconds).

use crate::out::{hexb, Sink};
use crate::rng::Rng;
use crate::Opts;
use futures::executor::block_on;
use omaha_client::storage::{MemStorage, Storage, StorageExt};
use std::time::{Duration, SystemTime};

fn time_of(ns: i128) -> SystemTime {
    if ns >= 0 { SystemTime::UNIX_EPOCH + Duration::new((ns / 1_000_000_000) as u64, (ns % 1_000_000_000) as u32) }
    else { let m = -ns; SystemTime::UNIX_EPOCH - Duration::new((m / 1_000_000_000) as u64, (m % 1_000_000_000) as u32) }
}

fn ns_of(t: SystemTime) -> i128 {
    match t.duration_since(SystemTime::UNIX_EPOCH) { Ok(d) => d.as_nanos() as i128, Err(e) => -(e.duration().as_nanos() as i128) }
}

pub fn run(o: &Opts, rng: &mut Rng) -> Sink {
    let mut sink = Sink::new("storage");
    if o.only_corpus { return sink; }
    let n = if o.thorough { 40_000 } else { 3_000 };
    let keys = ["a", "b", "last_update_time", ""];
    let ints: &[i64] = &[0, 1, -1, 5, 1_700_000_000_000_000, i64::MAX, i64::MIN, -1_500_000, 86_400_000_000];
    let times: &[i128] = &[0, 1, 999, 1000, 1_500, -1, -999, -1000, -1_500, 1_700_000_000_123_456_789, -3_000_001_500, 9_223_372_036_854_775_807_000, 9_223_372_036_854_775_808_000, -9_223_372_036_854_775_808_000, -9_223_372_036_854_775_808_001];
    for _ in 0..n {
        let nops = 1 + rng.below(14) as usize;
        let mut ops: Vec<String> = vec![];
        for _ in 0..nops {
            let k = hexb(rng.pick(&keys).as_bytes());
            ops.push(match rng.below(12) {
                0 => format!("sets:{}:{}", k, hexb(rng.pick(&["v", "", "x y", "\u{e9}"]).as_bytes())),
                1 => format!("seti:{}:{}", k, rng.pick(ints)),
                2 => format!("setb:{}:{}", k, rng.below(2)),
                3 => format!("rm:{}", k),
                4 => "commit".to_string(),
                5 => format!("setoi:{}:{}", k, if rng.chance(1, 3) { "-".to_string() } else { rng.pick(ints).to_string() }),
                6 => format!("sett:{}:{}", k, rng.pick(times)),
                7 => format!("gets:{}", k),
                8 => format!("geti:{}", k),
                9 => format!("getb:{}", k),
                10 => format!("gett:{}", k),
                _ => "state".to_string(),
            });
        }
        ops.push("state".into());
        let input = format!("run {}", ops.join(";"));
        let class = ops.iter().map(|o| o.split(':').next().unwrap().chars().take(4).collect::<String>()).collect::<Vec<_>>().join("");
        let ops2 = ops.clone();
        sink.bump(&format!("gen:len{}", nops));
        sink.case(input, Some(class), move || {
            let mut st = MemStorage::new();
            let mut out: Vec<String> = vec![];
            let unhex = |t: &str| String::from_utf8(hex::decode(t.trim_start_matches('x')).unwrap()).unwrap();
            for op in &ops2 {
                let f: Vec<&str> = op.split(':').collect();
                match f[0] {
                    "sets" => { block_on(st.set_string(&unhex(f[1]), &unhex(f[2]))).unwrap(); }
                    "seti" => { block_on(st.set_int(&unhex(f[1]), f[2].parse().unwrap())).unwrap(); }
                    "setb" => { block_on(st.set_bool(&unhex(f[1]), f[2] == "1")).unwrap(); }
                    "rm" => { block_on(st.remove(&unhex(f[1]))).unwrap(); }
                    "commit" => { block_on(st.commit()).unwrap(); }
                    "setoi" => { block_on(st.set_option_int(&unhex(f[1]), if f[2] == "-" { None } else { Some(f[2].parse().unwrap()) })).unwrap(); }
                    "sett" => { block_on(st.set_time(&unhex(f[1]), time_of(f[2].parse().unwrap()))).unwrap(); }
                    "gets" => out.push(block_on(st.get_string(&unhex(f[1]))).map(|s| hexb(s.as_bytes())).unwrap_or("-".into())),
                    "geti" => out.push(block_on(st.get_int(&unhex(f[1]))).map(|i| i.to_string()).unwrap_or("-".into())),
                    "getb" => out.push(block_on(st.get_bool(&unhex(f[1]))).map(|b| (b as u8).to_string()).unwrap_or("-".into())),
                    "gett" => out.push(block_on(st.get_time(&unhex(f[1]))).map(|t| ns_of(t).to_string()).unwrap_or("-".into())),
                    _ => out.push(format!("c{}n{}", st.committed() as u8, st.len())),
                }
            }
            out.join(",")
        });
    }
    sink
}
