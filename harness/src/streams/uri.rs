//! stream `uri`: StandardCupv2Handler::decorate_request on an Intermediate vs `Omaha.Uri.decorate`.
//! The nonce is drawn by the library; it is read back from the returned metadata and handed to
//! the model, and checked against the URL by the model's own rendering.

use crate::out::{hexb, Sink};
use crate::rng::Rng;
use crate::Opts;
use omaha_client::cup_ecdsa::{Cupv2RequestHandler, PublicKeyAndId, PublicKeys, StandardCupv2Handler};
use omaha_client::protocol::request::{Request, RequestWrapper};
use omaha_client::request_builder::Intermediate;
use std::collections::HashSet;

fn handler(kid: u64, nhist: usize) -> StandardCupv2Handler {
    let key = |i: usize| crate::streams::cup::signing_key(i).verifying_key();
    StandardCupv2Handler::new(&PublicKeys {
        latest: PublicKeyAndId { key: key(0), id: kid },
        historical: (0..nhist).map(|i| PublicKeyAndId { key: key(i + 1), id: kid.wrapping_add(1 + i as u64) }).collect(),
    })
}

const SCHEMES: &[&str] = &["http", "https", "HTTP", "HttpS", "ws", "fuchsia-pkg", "a+b.c-d~", "h", "x:y", "", "1http", "http:", "htt", "ftp"];
const AUTHS: &[&str] = &["example.com", "example.com:8080", "[::1]", "[::1]:443", "[fe80::1%25eth0]", "user@host", "user:pw@host:1", "u%41@host", "host:1:2", "[::1", "::1]", "host@", "@host", "a@b@c",
    "1.2.3.4", "EXAMPLE.com", "h_o-s.t~!$&'()*+,;=", "ho st", "h\u{e9}st", "host%41", "", "[1:2:3:4:5:6:7:8]:80", "[1:2:3:4:5:6:7:8:9]", "localhost", "a:b:c:d:e:f:g:h:i:j@host"];
const PATHS: &[&str] = &["", "/", "/service/update2/json", "/a/b/", "//", "/a b", "/a\"{}|", "/a^b", "/%7e", "/\u{fc}", "/a;b=c", "/a<b", "/~user", "/a\\b", "/@:", "/a`b"];
const QUERIES: &[&str] = &["", "a=b", "x=1&y=2", "cup2key=9:00", "?", "a=b?c", "a b", "a=\"q\"", "a=<b>", "key[]=1", "a=%20", "a=\u{e9}", "a=^", "a={1}", "=", "&"];
const FRAGS: &[&str] = &["", "frag", "a?b", "a#b", " "];

pub fn run(o: &Opts, rng: &mut Rng) -> Sink {
    let mut sink = Sink::new("uri");
    let mut nonces: HashSet<Vec<u8>> = HashSet::new();
    let mut dup_nonce = 0u64;
    let mut one = |sink: &mut Sink, url: String, kid: u64, nhist: usize, tag: String| {
        let h = handler(kid, nhist);
        let mut im = Intermediate { uri: url.clone(), headers: vec![], body: RequestWrapper { request: Request::default() } };
        let body_before = im.serialize_body().unwrap();
        let res = std::panic::catch_unwind(std::panic::AssertUnwindSafe(|| h.decorate_request(&mut im)));
        let (out, nonce) = match res {
            Err(_) => ("panic".to_string(), [0u8; 32]),
            Ok(Err(_)) => ("err".to_string(), [0u8; 32]),
            Ok(Ok(meta)) => {
                let n: [u8; 32] = meta.nonce.into();
                if !nonces.insert(n.to_vec()) { dup_nonce += 1; }
                let same = meta.request_body == body_before && meta.request_body == im.serialize_body().unwrap();
                (format!("ok {} kid={} body={}", hexb(im.uri.as_bytes()), meta.public_key_id, if same { "same" } else { "diff" }), n)
            }
        };
        sink.bump(&format!("gen:{}", tag.split('/').next().unwrap()));
        sink.case(format!("decorate {} {} {}", hexb(url.as_bytes()), kid, hexb(&nonce)), Some(tag), move || out);
    };
    if o.only_corpus { return sink; }
    // 1. grammar-directed
    let n = if o.thorough { 120_000 } else { 6_000 };
    for _ in 0..n {
        let kid = *rng.pick(&[0u64, 1, 42, 123456789, u64::MAX]);
        let si = rng.below(SCHEMES.len() as u64) as usize; let ai = rng.below(AUTHS.len() as u64) as usize;
        let pi = rng.below(PATHS.len() as u64) as usize; let qi = rng.below(QUERIES.len() as u64) as usize; let fi = rng.below(FRAGS.len() as u64) as usize;
        // bias toward the sane shapes
        let (si, ai) = if rng.chance(1, 2) { (si % 6, ai % 8) } else { (si, ai) };
        let (pi, qi, fi) = if rng.chance(1, 2) { (pi % 5, qi % 6, fi % 2) } else { (pi, qi, fi) };
        let mut url = String::new();
        let origin = rng.chance(1, 8);
        if !origin { url.push_str(SCHEMES[si]); url.push_str(*rng.pick(&["://", "://", "://", ":/", ":", "//"])); url.push_str(AUTHS[ai]); }
        url.push_str(PATHS[pi]);
        if qi > 0 || rng.chance(1, 10) { url.push('?'); url.push_str(QUERIES[qi]); }
        if fi > 0 { url.push('#'); url.push_str(FRAGS[fi]); }
        one(&mut sink, url, kid, rng.below(3) as usize, format!("grammar/{}/{}/{}/{}/{}/{}", if origin { 99 } else { si }, ai, pi, qi, fi, origin));
    }
    // 1b. authority-form and other scheme-less shapes a configuration file may contain
    for (k, u) in ["localhost:8080", "h:1", "example.com:443", "[::1]:80", "localhost", "example.com", "user@host:1", "h:1/p", "h:1?q", "//h:1/p", "h:"].iter().enumerate() {
        one(&mut sink, u.to_string(), 7, 0, format!("authority-form/{}", k));
    }
    // 2. short strings over a delimiter-heavy alphabet, exhaustively
    let alpha: &[u8] = b"h:/?#@[]%a.*1";
    let maxlen = if o.thorough { 5 } else { 3 };
    for len in 0..=maxlen {
        let total = (alpha.len() as u64).pow(len as u32);
        for mut k in 0..total {
            let mut s = String::new();
            for _ in 0..len { s.push(alpha[(k % alpha.len() as u64) as usize] as char); k /= alpha.len() as u64; }
            one(&mut sink, s.clone(), 7, 0, format!("short/{}", s));
        }
    }
    // 3. the same alphabet after a fixed sane prefix
    for len in 0..=maxlen {
        let total = (alpha.len() as u64).pow(len as u32);
        for mut k in 0..total {
            let mut s = String::from("http://h");
            for _ in 0..len { s.push(alpha[(k % alpha.len() as u64) as usize] as char); k /= alpha.len() as u64; }
            one(&mut sink, s.clone(), 7, 0, format!("suffix/{}", s));
        }
    }
    drop(one);
    // 4. whole requests through RequestBuilder::build with the handler: what goes on the wire (URL and
    //    body bytes of the hyper request) against the metadata returned for verification
    let n = if o.thorough { 30_000 } else { 1_500 };
    for _ in 0..n {
        let (cfg, _) = crate::streams::wire_req::gen_config(rng);
        let kid = *rng.pick(&[0u64, 1, 42, 123456789, u64::MAX]);
        let h = handler(kid, rng.below(3) as usize);
        let params = omaha_client::request_builder::RequestParams { source: if rng.chance(1, 2) { omaha_client::protocol::request::InstallSource::OnDemand } else { omaha_client::protocol::request::InstallSource::ScheduledTask }, ..Default::default() };
        let napps = 1 + rng.below(3);
        let apps: Vec<omaha_client::common::App> = (0..napps).map(|i| crate::streams::wire_req::gen_app(rng, &format!("app{}", i)).0).collect();
        let kind = rng.below(3);
        let ev = crate::streams::wire_req::gen_event(rng).0;
        let mut b = omaha_client::request_builder::RequestBuilder::new(&cfg, &params);
        for a in &apps {
            b = match kind { 0 => b.add_update_check(a).add_ping(a), 1 => b.add_event(a, ev.clone()), _ => b.add_ping(a) };
        }
        let non_ascii = apps.iter().any(|a| format!("{:?}", a).chars().any(|c| !c.is_ascii())) || !format!("{:?}{:?}", cfg.updater.name, cfg.os).is_ascii();
        let built = std::panic::catch_unwind(std::panic::AssertUnwindSafe(|| b.build(Some(&h))));
        let (out, nonce) = match built {
            Err(_) => ("panic".to_string(), [0u8; 32]),
            // the builder itself refuses (a header value the configuration cannot express): no request, nothing to decorate
            Ok(Err(_)) => { sink.bump("gen:built-refused-by-builder"); continue; }
            Ok(Ok((_, None))) => ("ok-without-metadata".to_string(), [0u8; 32]),
            Ok(Ok((req, Some(meta)))) => {
                let nn: [u8; 32] = meta.nonce.into();
                if !nonces.insert(nn.to_vec()) { dup_nonce += 1; }
                let (parts, body) = req.into_parts();
                let wire = futures::executor::block_on(hyper::body::to_bytes(body)).unwrap();
                let same = meta.request_body == wire.to_vec();
                (format!("ok {} kid={} body={}", hexb(parts.uri.to_string().as_bytes()), meta.public_key_id, if same { "same" } else { "diff" }), nn)
            }
        };
        sink.bump(&format!("gen:built-{}-{}", ["uc", "ev", "ping"][kind as usize], if non_ascii { "nonascii" } else { "ascii" }));
        let tag = format!("built/{}/{}/{}/{}", kind, napps, non_ascii, hexb(cfg.service_url.as_bytes()));
        sink.case(format!("decorate {} {} {}", hexb(cfg.service_url.as_bytes()), kid, hexb(&nonce)), Some(tag), move || out);
    }
    sink.hist.insert("distinct-nonces".into(), nonces.len() as u64);
    sink.hist.insert("duplicate-nonces".into(), dup_nonce);
    if dup_nonce > 0 {
        // a repeated nonce among thousands of 256-bit draws is a violation of freshness in itself
        sink.case("decorate x 0 x".into(), None, || "nonce-reused".into());
    }
    sink
}
