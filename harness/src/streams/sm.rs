//! stream `sm`: the real state machine, driven unit by unit through the scripted environment of
//! `crate::sm`, vs `Omaha.SM`. One case = one unit of work (one iteration of `run`'s loop or one
//! `oneshot_check`) with its complete start state; histories of several units are generated so that
//! start states are the ones the real machine reaches.

use crate::out::{hexb, Sink};
use crate::rng::Rng;
use crate::sm::exec::{canon_draws, Flag, Runner, UnitEnd};
use crate::sm::*;
use crate::Opts;
use futures::lock::Mutex as FMutex;
use omaha_client::common::{App, UserCounting};
use omaha_client::configuration::{Config, Updater};
use omaha_client::cup_ecdsa::{PublicKeyAndId, PublicKeys, StandardCupv2Handler};
use omaha_client::protocol::request::OS;
use omaha_client::protocol::Cohort;
use omaha_client::state_machine::StateMachineBuilder;
use omaha_client::version::Version;
use serde_json::json;
use std::collections::{BTreeMap, VecDeque};
use std::rc::Rc;
use std::sync::atomic::{AtomicBool, Ordering};
use std::sync::{Arc, Mutex};

const S: i128 = 1_000_000_000;
const APP_IDS: &[&str] = &["app1", "app2", "sys-app", "{guid-3}"];

pub struct Init {
    pub name: String,
    pub uver: [u32; 4],
    pub osver: String,
    pub url: String,
    pub cup: Option<(u64, usize)>,
    pub presets: Vec<App>,
    pub sys: String,
    pub committed: BTreeMap<Vec<u8>, SVal>,
    pub wall: i128,
    pub mono: i128,
    /// stream `smmock`: answer HTTP requests from this in-process mock server instead of the script
    pub mock: Option<Rc<crate::streams::mock::ServerCfg>>,
    /// the enumeration of attempt-outcome sequences: the first unit's check gets exactly these update-check outcomes
    pub force_uc: Option<(VecDeque<HttpOutcome>, usize)>,   // outcomes, number of apps the good body offers an update for
}

fn opt_pick(rng: &mut Rng, xs: &[&str]) -> Option<String> {
    if rng.chance(1, 2) { None } else { Some(rng.pick(xs).to_string()) }
}

fn persisted_json(rng: &mut Rng) -> Vec<u8> {
    match rng.below(8) {
        0 => b"not json".to_vec(),
        1 => b"{\"cohort\":{}}".to_vec(),
        2 => b"{\"cohort\":{\"cohort\":5},\"user_counting\":{\"ClientRegulatedByDate\":1}}".to_vec(),
        3 => b"{\"cohort\":{\"cohort\":\"\",\"cohortname\":\"n\"},\"user_counting\":{\"ClientRegulatedByDate\":null},\"extra\":1}".to_vec(),
        4 => b"{\"user_counting\":{\"ClientRegulatedByDate\":4294967296},\"cohort\":{}}".to_vec(),
        _ => {
            let mut c = serde_json::Map::new();
            if rng.chance(1, 2) { c.insert("cohort".into(), json!(rng.pick(&["1:1:", "", "stored-id"]))); }
            if rng.chance(1, 2) { c.insert("cohorthint".into(), json!(rng.pick(&["stored-hint", ""]))); }
            if rng.chance(1, 2) { c.insert("cohortname".into(), json!(rng.pick(&["stored-name", "stable"]))); }
            let uc = if rng.chance(1, 2) { json!(null) } else { json!(*rng.pick(&[0u32, 4000, u32::MAX])) };
            serde_json::to_vec(&json!({"cohort": c, "user_counting": {"ClientRegulatedByDate": uc}})).unwrap()
        }
    }
}

/// What a restarted state machine inherits from the previous one: the committed storage and the
/// embedder's configuration (app ids, versions), at a later time.
pub struct Carry { pub init: Init, pub committed: BTreeMap<Vec<u8>, SVal>, pub wall: i128, pub exchanges: Vec<(String, Vec<u8>, MockReply)> }

/// The configuration of a restart: same apps, but the embedder presets cohort / user-counting
/// fields in a fresh random combination (so that "stored values fill only unset fields" is exercised
/// on records the library itself wrote).
pub fn restart_init(rng: &mut Rng, c: Carry) -> Init {
    let mut init = c.init;
    for app in init.presets.iter_mut() {
        app.cohort = Cohort { id: opt_pick(rng, &["preset-id", ""]), hint: opt_pick(rng, &["preset-hint"]), name: opt_pick(rng, &["preset-name"]) };
        app.user_counting = if rng.chance(1, 3) { UserCounting::ClientRegulatedByDate(Some(*rng.pick(&[1u32, 4774]))) } else { UserCounting::ClientRegulatedByDate(None) };
        if rng.chance(1, 4) { app.version = Version::from(*rng.pick(&[[1, 2, 3, 4], [2, 0, 0, 0]])); }
    }
    if rng.chance(1, 3) { init.osver = rng.pick(&["1.0", "2.0"]).to_string(); }
    init.committed = c.committed;
    init.wall = c.wall + *rng.pick(&[0i128, 90 * S, 3600 * S, -30 * S]);
    init.mono = *rng.pick(&[0i128, 5 * S]);
    init
}

pub fn gen_init(rng: &mut Rng) -> Init {
    let wall = *rng.pick(&[1_700_000_000i128 * S + 123_456_789, 1_700_000_000 * S, 5 * S + 1500, -3 * S - 1500]);
    let mono = *rng.pick(&[0i128, 1000 * S + 7, 77]);
    let osver = rng.pick(&["1.0", "2.0"]).to_string();
    let napps = 1 + rng.below(3) as usize;
    let mut ids: Vec<&str> = APP_IDS.to_vec();
    let mut presets = vec![];
    for _ in 0..napps {
        let id = ids.remove(rng.below(ids.len() as u64) as usize);
        let ver = if rng.chance(1, 30) { [0, 0, 0, 0] } else { *rng.pick(&[[1, 2, 3, 4], [0, 0, 0, 1], [20, 0, 0, 0]]) };
        let mut app = App::builder().id(if rng.chance(1, 40) { "" } else { id }).version(ver).build();
        app.fingerprint = opt_pick(rng, &["fp-1"]);
        app.cohort = Cohort { id: opt_pick(rng, &["preset-id", ""]), hint: opt_pick(rng, &["preset-hint"]), name: opt_pick(rng, &["preset-name"]) };
        if rng.chance(1, 3) { app.user_counting = UserCounting::ClientRegulatedByDate(Some(*rng.pick(&[1u32, 4774]))); }
        presets.push(app);
    }
    let sys = if rng.chance(4, 5) { presets[rng.below(presets.len() as u64) as usize].id.clone() } else { "not-in-set".to_string() };
    let mut committed = BTreeMap::new();
    for a in &presets {
        if rng.chance(1, 2) { committed.insert(a.id.as_bytes().to_vec(), if rng.chance(1, 8) { SVal::Int(5) } else { SVal::Str(persisted_json(rng)) }); }
    }
    let ints: &[i64] = &[0, 1, 5, -1, 86_400_000_000, 4294967295, 4294967296, i64::MAX, i64::MIN, 1_699_999_000_000_000, 3_000_000];
    for key in ["last_update_time", "server_dictated_poll_interval", "consecutive_failed_update_checks", "update_first_seen_time", "update_finish_time", "consecutive_failed_install_attempts"] {
        match rng.below(5) {
            0 | 1 => {}
            2 => { committed.insert(key.as_bytes().to_vec(), SVal::Str(b"wrong type".to_vec())); }
            _ => { committed.insert(key.as_bytes().to_vec(), SVal::Int(*rng.pick(ints))); }
        }
    }
    // the counters at their ceilings (saturation is a code path of its own)
    if rng.chance(1, 10) { committed.insert(b"consecutive_failed_update_checks".to_vec(), SVal::Int(4294967295)); }
    if rng.chance(1, 12) { committed.insert(b"consecutive_failed_install_attempts".to_vec(), SVal::Int(i64::MAX)); }
    if rng.chance(1, 2) { committed.insert(b"install_plan_id".to_vec(), SVal::Str(rng.pick(&["plan-1", "plan-2", "other"]).as_bytes().to_vec())); }
    if rng.chance(1, 2) { committed.insert(b"target_version".to_vec(), if rng.chance(1, 8) { SVal::Bool(true) } else { SVal::Str(rng.pick(&["1.0", "2.0", "UNKNOWN"]).as_bytes().to_vec()) }); }
    // a consistent "rebooted into the new version" record now and then
    if rng.chance(1, 4) {
        committed.insert(b"update_finish_time".to_vec(), SVal::Int(((wall - *rng.pick(&[60 * S, 0, -5 * S])) / 1000) as i64));
        committed.insert(b"target_version".to_vec(), SVal::Str(osver.as_bytes().to_vec()));
    }
    Init {
        name: if rng.chance(1, 25) { "bad\u{1}name".into() } else { "updater".into() },
        uver: [1, 2, 3, 4], osver,
        url: if rng.chance(1, 25) { "http://exa mple.com/".into() } else { rng.pick(&["http://example.com/svc?x=1", "https://omaha.example:8443/"]).to_string() },
        cup: if rng.chance(1, 2) { Some((*rng.pick(&[1u64, 42]), rng.below(3) as usize)) } else { None },
        presets, sys, committed, wall, mono, mock: None, force_uc: None,
    }
}

fn dt(rng: &mut Rng) -> (i128, i128) {
    // a time source whose monotonic reading steps back (the code has branches for it: a mock or a broken clock)
    if rng.chance(1, 20) { return (1_000_000, -2 * S); }
    // a wall clock far beyond anything a calendar library prints (the clock jumps there and stays)
    if rng.chance(1, 40) { return (8_300_000_000_000 * S, 5 * S); }
    match rng.below(6) {
        0 => (0, 0),
        1 => (250_000_000, 250_000_000),
        2 => (3 * S, 3 * S),
        3 => (-100 * S, 1_000_000),          // wall clock jumps back
        4 => (400 * 86400 * S, 5 * S),       // far future
        _ => (1_234_567, 1_234_567),
    }
}

fn timing(rng: &mut Rng, h: &Init) -> String {
    let w = h.wall + *rng.pick(&[0, 3600 * S, -5 * S]);
    let m = h.mono + *rng.pick(&[0, 3600 * S, 17]);
    let base = match rng.below(3) { 0 => format!("W{}", w), 1 => format!("M{}", m), _ => format!("C{},{}", w, m) };
    if rng.chance(1, 2) { format!("{}+{}", base, *rng.pick(&[0i128, 60 * S, 1800 * S])) } else { base }
}

/// A response document for (a variation of) the app set; returns the body and the number of apps
/// offered an update.
fn response_body(rng: &mut Rng, apps: &[App]) -> (Vec<u8>, usize) {
    match rng.below(12) {
        0 => return (b"not json at all".to_vec(), 0),
        1 => return (b"{\"response\":{\"protocol\":\"3.0\"}}".to_vec(), 0),
        _ => {}
    }
    let mut ids: Vec<String> = apps.iter().map(|a| a.id.clone()).collect();
    if rng.chance(1, 4) { ids.push("unknown-app".into()); }
    if rng.chance(1, 4) && !ids.is_empty() { let i = rng.below(ids.len() as u64) as usize; ids.remove(i); }
    if rng.chance(1, 3) { ids.reverse(); }
    if rng.chance(1, 10) && !ids.is_empty() { let d = ids[0].clone(); ids.push(d); }
    let mut offered = 0;
    let docs: Vec<serde_json::Value> = ids.iter().map(|id| {
        let mut a = serde_json::Map::new();
        a.insert("appid".into(), json!(id));
        a.insert("status".into(), json!(rng.pick(&["ok", "ok", "ok", "error-unknownApplication", "restricted"])));
        for k in ["cohort", "cohorthint", "cohortname"] {
            match rng.below(3) { 0 => {} 1 => { a.insert(k.into(), json!("")); } _ => { a.insert(k.into(), json!(format!("srv-{}-{}", k, rng.below(3)))); } }
        }
        match rng.below(6) {
            0 => {}
            1 => { a.insert("updatecheck".into(), json!({"status": "noupdate"})); }
            2 => { a.insert("updatecheck".into(), json!({"status": rng.pick(&["error-internal", "restricted", "error-hash"])})); }
            3 => { offered += 1; a.insert("updatecheck".into(), json!({"status": "ok"})); }
            _ => { offered += 1; a.insert("updatecheck".into(), json!({"status": "ok", "urls": {"url": [{"codebase": "http://dl/"}]},
                "manifest": {"version": rng.pick(&["2.0", "1.0", "9.9.9.9"]), "actions": {"action": [{"event": "install", "run": "pkg"}]}, "packages": {"package": [{"name": "pkg", "required": true, "fp": "fp2"}]}}})); }
        }
        serde_json::Value::Object(a)
    }).collect();
    let mut r = serde_json::Map::new();
    r.insert("protocol".into(), json!("3.0"));
    r.insert("app".into(), json!(docs));
    match rng.below(4) { 0 => {} 1 => { r.insert("daystart".into(), json!({"elapsed_seconds": 5})); } _ => { r.insert("daystart".into(), json!({"elapsed_days": *rng.pick(&[4775u32, 0, 4776]), "elapsed_seconds": 48810})); } }
    let mut body = serde_json::to_vec(&json!({"response": r})).unwrap();
    if rng.chance(1, 6) { let mut p = b")]}'\n".to_vec(); p.extend(body); body = p; }
    (body, offered)
}

fn retry_after(rng: &mut Rng) -> Option<Vec<u8>> {
    match rng.below(10) {
        0 | 1 | 2 | 3 | 4 => None,
        5 => Some(b"5".to_vec()),
        6 => Some(rng.pick(&[&b"86400"[..], b"86401", b"4294967296", b"18446744073709551615", b"18446744073709551616", b"0"]).to_vec()),
        7 => Some(rng.pick(&[&b"+7"[..], b"007", b" 5", b"5 ", b"-0", b"", b"1e3", b"5s", b"\xb5"]).to_vec()),
        _ => Some(b"120".to_vec()),
    }
}

fn http_outcome(rng: &mut Rng, cup: bool, body: Vec<u8>, good_bias: u64) -> HttpOutcome {
    let (dw, dm) = dt(rng);
    if rng.chance(good_bias, 10) {
        return HttpOutcome::Resp { status: 200, retry_after: retry_after(rng), body, authentic: true, forgery: 0, dw, dm };
    }
    match rng.below(9) {
        0 => HttpOutcome::Fail { kind: 't', dw, dm },
        1 => HttpOutcome::Fail { kind: 'o', dw, dm },
        2 => HttpOutcome::Fail { kind: 'u', dw, dm },
        3 => HttpOutcome::Resp { status: *rng.pick(&[301u16, 404, 429, 500, 503, 199, 300]), retry_after: retry_after(rng), body, authentic: true, forgery: 0, dw, dm },
        4 => HttpOutcome::Resp { status: *rng.pick(&[500u16, 503]), retry_after: None, body: vec![], authentic: true, forgery: 0, dw, dm },
        5 | 6 if cup => HttpOutcome::Resp { status: *rng.pick(&[200u16, 200, 500]), retry_after: retry_after(rng), body, authentic: false, forgery: rng.below(16) as u8, dw, dm },
        7 => HttpOutcome::Resp { status: *rng.pick(&[200u16, 204, 299]), retry_after: retry_after(rng), body: b"{\"response\": truncated".to_vec(), authentic: true, forgery: 0, dw, dm },
        _ => HttpOutcome::Resp { status: 200, retry_after: None, body, authentic: true, forgery: 0, dw, dm },
    }
}

fn gen_unit(rng: &mut Rng, h: &Init, apps: &[App], oneshot: bool) -> (UnitEnv, String) {
    let cup = h.cup.is_some();
    let mut u = UnitEnv::default();
    u.next = timing(rng, h);
    let has_min = u.next.contains('+');
    let narm = if has_min { 2 } else { 1 };
    // outer wait: all timers in some order, or a control request (possibly after a partial firing)
    let mut order: Vec<usize> = (0..narm).collect();
    if narm == 2 && rng.chance(1, 2) { order.reverse(); }
    let mut path = String::new();
    if !oneshot {
        match rng.below(4) {
            0 => { u.wake = vec![Step::Ctl(100, rng.chance(1, 2))]; path.push_str("ctl/"); }
            1 if narm == 2 => { u.wake = vec![Step::Fire(order[0]), Step::Ctl(101, rng.chance(1, 2))]; path.push_str("partial+ctl/"); }
            _ => { u.wake = order.iter().map(|i| Step::Fire(*i)).collect(); path.push_str("timers/"); }
        }
    }
    u.wakedt = dt(rng);
    u.burst = rng.chance(1, 3);
    let p = format!("{}:{}:{}", if rng.chance(1, 2) { "od" } else { "st" }, rng.chance(1, 4) as u8, rng.chance(1, 4) as u8);
    u.allow = match rng.below(10) { 0 => "toosoon".into(), 1 => "throttled".into(), 2 => "denied".into(), 3 => format!("okdeferred({})", p), _ => format!("ok({})", p) };
    if oneshot { u.allow = "ok(st:0:0)".into(); }
    path.push_str(u.allow.split('(').next().unwrap());
    // update-check attempts
    let (body, offered) = response_body(rng, apps);
    let good = *rng.pick(&[9u64, 7, 3]);
    let mut n_offered = 0;
    for k in 0..3 {
        let o = http_outcome(rng, cup, body.clone(), good);
        if let HttpOutcome::Resp { status, authentic, .. } = &o { if (200..300).contains(status) && (*authentic || !cup) && k == u.uc.len() { n_offered = offered; } }
        path.push_str(&format!("/{}", o.short()));
        u.uc.push_back(o);
    }
    let _ = n_offered;
    for _ in 0..4 { let (b, _) = response_body(rng, apps); u.ev.push_back(http_outcome(rng, cup, b, 6)); }
    for _ in 0..3 { let (b, _) = response_body(rng, apps); u.pg.push_back(http_outcome(rng, cup, b, 3)); }   // pings fail more often than checks: the paths that count a failed ping are rare otherwise
    u.plan = if rng.chance(1, 8) { None } else { Some(*rng.pick(&[1u32, 1, 2, 7])) };
    u.canstart = rng.pick(&["ok", "ok", "ok", "deferred", "denied"]).to_string();
    // sixteenths; now and then beyond 100 % (an installer that accumulates in f32 overshoots): every value is forwarded as reported
    u.progress = (0..rng.below(8)).map(|_| if rng.chance(1, 6) { 17 + rng.below(16) as u32 } else { rng.below(17) as u32 }).collect();
    u.results = (0..offered).map(|_| match rng.below(5) { 0 => AppRes::Failed(rng.below(3) as u32), 1 => AppRes::Deferred, _ => AppRes::Installed }).collect();
    u.instdt = dt(rng);
    u.rebootneeded = rng.chance(2, 3);
    let nfail = rng.below(3);
    u.sfail = (0..14).map(|_| nfail > 0 && rng.chance(nfail, 8)).collect();
    u.bdt = (0..2).map(|_| dt(rng)).collect();
    if !oneshot && rng.chance(1, 3) { u.during = vec![(200, rng.chance(1, 2))]; if rng.chance(1, 3) { u.during.push((201, rng.chance(1, 2))); } }
    // they arrive during the first exchange of the check, or during a later one (a retry, an event report)
    u.during_at = if rng.chance(1, 2) { 0 } else { rng.below(4) as usize };
    u.rallow = (0..4).map(|_| rng.chance(1, 2)).collect();
    u.rnext = (0..3).map(|_| timing(rng, h)).collect();
    u.rebootok = rng.chance(5, 6);
    path.push_str(&format!("/plan{:?}/{}/{}off", u.plan.is_some(), u.canstart, offered));
    (u, path)
}

/// Symbolic steps of the reboot wait, resolved to timer indices at run time.
#[derive(Clone, Debug)]
enum RStep { Fire30, FirePing(usize), Ctl(usize, bool) }

fn steps_tok(v: &[Step]) -> String {
    if v.is_empty() { "-".into() } else { v.iter().map(|s| match s { Step::Fire(i) => format!("f{}", i), Step::Ctl(id, od) | Step::CtlPair(id, od, _, _) | Step::Race(id, od) | Step::Ctl2(id, od, _, _) | Step::CtlQueued(id, od) => format!("c{}:{}", id, if *od { "od" } else { "st" }), Step::FireCtl(..) => unreachable!() }).collect::<Vec<_>>().join(",") }
}

fn outcomes_tok(v: &VecDeque<HttpOutcome>) -> String {
    if v.is_empty() { "-".into() } else { v.iter().map(|o| o.tok()).collect::<Vec<_>>().join(";") }
}

fn unit_tokens(u: &UnitEnv, jit: &[i128], rsteps_done: &[(Step, (i128, i128))]) -> String {
    let list = |v: Vec<String>| if v.is_empty() { "-".to_string() } else { v.join(",") };
    format!("next={} wake={} wakedt={},{} allow={} uc={} ev={} pg={} plan={} canstart={} progress={} results={} instdt={},{} rebootneeded={} sfail={} jit={} bdt={} during={} rallow={} rnext={} rsteps={} rebootok={}",
        u.next, steps_tok(&u.wake), u.wakedt.0, u.wakedt.1, u.allow, outcomes_tok(&u.uc), outcomes_tok(&u.ev), outcomes_tok(&u.pg),
        u.plan.map(|n| n.to_string()).unwrap_or("err".into()), u.canstart, list(u.progress.iter().map(|x| x.to_string()).collect()),
        list(u.results.iter().map(|r| match r { AppRes::Installed => "i".to_string(), AppRes::Deferred => "d".into(), AppRes::Failed(m) => format!("f{}", m) }).collect()),
        u.instdt.0, u.instdt.1, u.rebootneeded as u8, list(u.sfail.iter().map(|b| (*b as u8).to_string()).collect()), list(jit.iter().map(|j| j.to_string()).collect()),
        if u.bdt.is_empty() { "-".into() } else { u.bdt.iter().map(|d| format!("{},{}", d.0, d.1)).collect::<Vec<_>>().join(";") },
        list(u.during.iter().map(|(id, od)| format!("{}:{}", id, if *od { "od" } else { "st" })).collect()),
        list(u.rallow.iter().map(|b| (*b as u8).to_string()).collect()),
        if u.rnext.is_empty() { "-".into() } else { u.rnext.iter().cloned().collect::<Vec<_>>().join(";") },
        if rsteps_done.is_empty() { "-".into() } else { rsteps_done.iter().map(|(s, d)| format!("{}@{},{}", steps_tok(&[s.clone()]), d.0, d.1)).collect::<Vec<_>>().join(";") },
        u.rebootok as u8)
}

fn init_tokens(h: &Init) -> String {
    format!("name={} uver={} osver={} url={} cup={} sys={}", hexb(h.name.as_bytes()), crate::streams::wire_req::ver_tok(&h.uver), hexb(h.osver.as_bytes()), hexb(h.url.as_bytes()),
        h.cup.map(|c| c.0.to_string()).unwrap_or("-".into()), hexb(h.sys.as_bytes()))
}

fn store_tok(p: &BTreeMap<Vec<u8>, Option<SVal>>, c: &BTreeMap<Vec<u8>, SVal>) -> String {
    let ps: Vec<String> = p.iter().map(|(k, v)| format!("{}:{}", hexb(k), v.as_ref().map(|x| x.tok()).unwrap_or("-".into()))).collect();
    let cs: Vec<String> = c.iter().map(|(k, v)| format!("{}:{}", hexb(k), v.tok())).collect();
    format!("pend={} comm={}", if ps.is_empty() { "-".into() } else { ps.join(",") }, if cs.is_empty() { "-".into() } else { cs.join(",") })
}

/// ctx tokens of a `P next` / `E sched` + `E proto` line, renamed for the scenario (`next=` → `nxt=`).
fn ctx_from_pnext(line: &str) -> (String, String) {
    // "P next apps=A lut=.. lct=.. next=.. poll=.. fails=.. proxied=.. -> T"
    let toks: Vec<&str> = line.split(' ').collect();
    let get = |k: &str| toks.iter().find_map(|t| t.strip_prefix(k)).unwrap_or("-").to_string();
    (get("apps="), format!("lut={} lct={} nxt={} poll={} fails={} proxied={}", get("lut="), get("lct="), get("next="), get("poll="), get("fails="), get("proxied=")))
}

pub struct UnitCase { pub input: String, pub output: String, pub class: String }

/// Run one history against the real state machine and cut it into per-unit cases.
pub fn run_history(rng: &mut Rng, init: Init, nunits: usize, oneshot: bool) -> (Vec<UnitCase>, Carry) {
    run_history_opt(rng, init, nunits, oneshot, false, None)
}

/// The same history (same seed), but the process dies once the trace has `crash_at` lines: returns the units
/// completed before that and what survives — the committed storage at that instant.
pub fn run_history_crash(rng: &mut Rng, init: Init, nunits: usize, oneshot: bool, crash_at: usize) -> (Vec<UnitCase>, Carry) {
    run_history_opt(rng, init, nunits, oneshot, false, Some(crash_at))
}

/// `healthy`: generate exactly the same history, but let every storage operation succeed.
pub fn run_history_opt(rng: &mut Rng, init: Init, nunits: usize, oneshot: bool, healthy: bool, crash_at: Option<usize>) -> (Vec<UnitCase>, Carry) {
    let hub: H = Arc::new(Mutex::new(Hub::new(init.wall, init.mono)));
    { let mut h = hub.lock().unwrap(); h.committed = init.committed.clone(); h.cup_sign = init.cup; }
    if let Some(cfg) = &init.mock {
        // the client's verifier should accept exactly when the server holds the client's key id with the same key pair
        // (PrivateKeys::find: the latest key first, then the first historical entry with that id) and no ETag is forced
        let auth = match init.cup {
            None => true,
            Some((kid, kidx)) => {
                let held = if cfg.latest.0 == kid { Some(cfg.latest.1) } else { cfg.hist.iter().find(|(i, _)| *i == kid).map(|(_, k)| *k) };
                cfg.etag_override.is_none() && held == Some(kidx)
            }
        };
        hub.lock().unwrap().mock = Some(MockHook { server: Arc::new(tokio::sync::Mutex::new(cfg.build())), auth, log: vec![], exchanges: vec![] });
    }
    let config = Config { updater: Updater { name: init.name.clone(), version: Version::from(init.uver) },
        os: OS { platform: String::new(), version: init.osver.clone(), service_pack: String::new(), arch: String::new() },
        service_url: init.url.clone(), omaha_public_keys: None };
    // the client also trusts two retired keys under other ids: the "wrong key" forgery (make_etag, kind 2) is signed with
    // the first of them — a key the client trusts, but not the one the request named
    let cup_handler = init.cup.map(|(kid, key)| StandardCupv2Handler::new(&PublicKeys {
        latest: PublicKeyAndId { id: kid, key: crate::streams::cup::signing_key(key).verifying_key() },
        historical: vec![PublicKeyAndId { id: kid.wrapping_add(100), key: crate::streams::cup::signing_key((key + 1) % 5).verifying_key() },
                         PublicKeyAndId { id: kid.wrapping_add(200), key: crate::streams::cup::signing_key((key + 3) % 5).verifying_key() }] }));
    let app_set = Rc::new(FMutex::new(HAppSet { apps: init.presets.clone(), sys: init.sys.clone() }));
    let time = HTime(hub.clone());
    let storage = Rc::new(FMutex::new(HStorage(hub.clone())));
    let builder = StateMachineBuilder::new(HPolicy { hub: hub.clone(), time: time.clone() }, HHttp(hub.clone()), HInstaller(hub.clone()), HTimer(hub.clone()),
        HMetrics(hub.clone()), storage.clone(), config, app_set.clone(), cup_handler);
    let flag = Arc::new(Flag(AtomicBool::new(false)));
    let mut cases = vec![];
    let start_mono = init.mono;
    let fin0 = match init.committed.get(&b"update_finish_time"[..]) { Some(SVal::Int(i)) => Some(*i as i128 * 1000), _ => None };
    let mut should = fin0.is_some() && matches!(init.committed.get(&b"target_version"[..]), Some(SVal::Str(s)) if s == init.osver.as_bytes());

    // a panic while the machine is being built (it loads and logs its context) is a case of its own: the unit that would
    // have run, answered `panic`
    let built = std::panic::catch_unwind(std::panic::AssertUnwindSafe(|| {
        if oneshot { (None, Box::pin(futures::executor::block_on(builder.oneshot_check())) as std::pin::Pin<Box<dyn futures::Stream<Item = omaha_client::state_machine::StateMachineEvent>>>) }
        else { let (h, s) = futures::executor::block_on(builder.start()); (Some(h), Box::pin(s) as std::pin::Pin<Box<dyn futures::Stream<Item = omaha_client::state_machine::StateMachineEvent>>>) }
    }));
    let (handle0, stream0) = match built {
        Ok(x) => x,
        Err(_) => {
            let (env0, path0) = gen_unit(rng, &init, &init.presets, oneshot);
            let input = format!("mode={} {} apps={} {} {} clk={},{} rs={}:{}:{} {}", if oneshot { "oneshot" } else { "start" }, init_tokens(&init), apps_tok(&init.presets),
                "lut=- lct=- nxt=- poll=- fails=0 proxied=0", store_tok(&BTreeMap::new(), &init.committed), init.wall, init.mono,
                start_mono, fin0.map(|f| f.to_string()).unwrap_or("-".into()), should as u8, unit_tokens(&env0, &[], &[]));
            let cases = vec![UnitCase { input, output: "panic".into(), class: format!("panic-at-build/{}", path0) }];
            let (committed, wall) = { let h = hub.lock().unwrap(); (h.committed.clone(), h.wall) };
            return (cases, Carry { init, committed, wall, exchanges: vec![] });
        }
    };
    let mut runner = if oneshot {
        let stream = stream0;
        Runner { hub: hub.clone(), stream, handle: None, ctls: vec![], replies: vec![], flag, ctl_flag: Arc::new(Flag(AtomicBool::new(false))), strict: false, fresh: false, need_poll: true, next_boundary: 0, ended: false, polls: 0, stalled_wakeups: 0, contend: None, storage: None, app_set: None, contended: 0, crash_at: None, shared: None }
    } else {
        let (handle, stream) = (handle0.unwrap(), stream0);
        Runner { hub: hub.clone(), stream, handle: Some(handle), ctls: vec![], replies: vec![], flag, ctl_flag: Arc::new(Flag(AtomicBool::new(false))), strict: false, fresh: false, need_poll: true, next_boundary: 0, ended: false, polls: 0, stalled_wakeups: 0, contend: None, storage: None, app_set: None, contended: 0, crash_at: None, shared: None }
    };

    runner.crash_at = crash_at;
    // executor perturbations (implementation only): strict wake-only polling, a fresh waker for every poll
    hub.lock().unwrap().mutate_backoff = rng.chance(1, 3);
    runner.strict = rng.chance(1, 2);
    runner.fresh = rng.chance(1, 2);
    // third perturbation: lock contention in mid-flight (see `Runner::contend`)
    if rng.chance(1, 4) {
        let prefix = rng.pick(&["E result", "E proto", "E sched", "E state", "E progress", "E response"]).to_string();
        runner.contend = Some((prefix, rng.chance(2, 3)));
    }
    runner.storage = Some(storage.clone());
    runner.app_set = Some(app_set.clone());
    crate::sm::LOCKS.with(|l| *l.borrow_mut() = Some((storage.clone(), app_set.clone())));
    let exec_tags = format!("{}{}{}", if runner.strict { "strict/" } else { "" }, if runner.fresh { "fresh/" } else { "" }, if runner.contend.is_some() { "contend/" } else { "" });
    // all unit environments are generated up front (the hub switches to the next one by itself at
    // each unit boundary); reboot-wait steps stay symbolic until run time
    let mut envs: Vec<(UnitEnv, String)> = vec![];
    let mut rplans: Vec<VecDeque<(RStep, (i128, i128))>> = vec![];
    for k in 0..nunits {
        let (mut env, path) = gen_unit(rng, &init, &init.presets, oneshot);
        if healthy { for b in env.sfail.iter_mut() { *b = false; } }
        if k == 0 { if let Some((f, offered)) = &init.force_uc {
            env.uc = f.clone(); env.during = vec![]; env.sfail = vec![false; 14].into();
            env.results = (0..*offered).map(|_| match rng.below(5) { 0 => AppRes::Failed(rng.below(3) as u32), 1 => AppRes::Deferred, _ => AppRes::Installed }).collect();
            env.wake = env.wake.iter().filter(|s| matches!(s, Step::Fire(_))).cloned().collect();
            if env.wake.is_empty() { env.wake = (0..(if env.next.contains('+') { 2 } else { 1 })).map(Step::Fire).collect(); }
            if !env.allow.starts_with("ok") { env.allow = "ok(st:0:0)".into(); }
        } }
        if let Some(cfg) = &init.mock {
            // the installer contract: one result per app the server offers an update for
            let offered = cfg.resp.iter().filter(|r| matches!(r.1, "update" | "urgent" | "invalidurl")).count();
            env.results = (0..offered).map(|_| match rng.below(5) { 0 => AppRes::Failed(rng.below(3) as u32), 1 => AppRes::Deferred, _ => AppRes::Installed }).collect();
            // the server's updates-disabled assertion follows the policy's parameters most of the time
            if rng.chance(9, 10) { if let Some(p) = env.allow.find(':') { let b = env.allow.as_bytes()[p + 1]; let want = if cfg.resp.first().map(|r| r.3).unwrap_or(false) { b'1' } else { b'0' }; if b != want { let mut v = env.allow.clone().into_bytes(); v[p + 1] = want; env.allow = String::from_utf8(v).unwrap(); } } }
        }
        // control request ids carry the unit index
        for s in env.wake.iter_mut() { if let Step::Ctl(id, _) = s { *id += 1000 * k; } }
        for d in env.during.iter_mut() { d.0 += 1000 * k; }
        // an abandoned request followed at once by an awaited one from the same handle instance: the first wakes the machine
        // and is served (its reply goes nowhere), the second arrives while the check it started is running
        // (only where the check is sure to block on its first exchange: a request that cannot be built ends the check at once)
        if !oneshot && env.during.is_empty() && env.allow.starts_with("ok") && !init.name.contains('\u{1}') && !init.url.contains(' ') && rng.chance(1, 3) {
            if let [Step::Ctl(_, od)] = env.wake[..] {
                let od2 = rng.chance(1, 2);
                env.wake = vec![Step::CtlPair(900_000 + k, od, 1000 * k + 250, od2)];
                env.during = vec![(1000 * k + 250, od2)];
                env.during_at = 0;
            }
        }
        // both branches of the outer wait ready at once: every timer has fired and a request has arrived before the machine
        // runs again (same restriction: the check must block, so that the reply tells which branch won)
        if !oneshot && init.force_uc.is_none() && env.during.is_empty() && env.allow.starts_with("ok") && !init.name.contains('\u{1}') && !init.url.contains(' ')
            && !env.wake.is_empty() && env.wake.iter().all(|s| matches!(s, Step::Fire(_))) && rng.chance(1, 3) {
            env.wake.push(Step::Race(1000 * k + 260, rng.chance(1, 2)));
            env.burst = true;
        }
        let mut rplan: VecDeque<(RStep, (i128, i128))> = VecDeque::new();
        for _ in 0..rng.below(7) {
            let s = match rng.below(5) { 0 => RStep::Fire30, 1 => RStep::Ctl(1000 * k + 300 + rplan.len(), rng.chance(1, 2)), _ => RStep::FirePing(rng.below(2) as usize) };
            rplan.push_back((s, dt(rng)));
        }
        envs.push((env, format!("{}{}", exec_tags, path)));
        rplans.push(rplan);
    }
    // two requests queued at one wait, the first refused by the policy: the second is taken at the next wait (and put to
    // the policy with its own options)
    for k in 0..nunits.saturating_sub(1) {
        let neg = !envs[k].0.allow.starts_with("ok");
        let plain_next = envs[k + 1].0.wake.iter().all(|s| matches!(s, Step::Fire(_) | Step::Ctl(..)));
        if let ([Step::Ctl(a, od)], true, true) = (&envs[k].0.wake[..], neg, plain_next) {
            if rng.chance(1, 2) {
                let (a, od) = (*a, *od);
                let (b, odb) = (1000 * (k + 1) + 270, rng.chance(1, 2));
                envs[k].0.wake = vec![Step::Ctl2(a, od, b, odb)];
                envs[k].1.push_str("queued2/");
                envs[k + 1].0.wake = vec![Step::CtlQueued(b, odb)];
                envs[k + 1].0.wakedt = (0, 0);
                envs[k + 1].0.burst = false;
            }
        }
    }
    {
        let mut h = hub.lock().unwrap();
        h.units = envs.iter().skip(1).map(|e| e.0.clone()).collect();
        h.env = envs[0].0.clone();
        if oneshot { h.in_check = true; }
    }
    struct Done { strip_fires: bool, env: UnitEnv, path: String, start: usize, end: usize, snap_before: Snapshot, snap_after: Snapshot, end_kind: UnitEnd, jit: Vec<i128>, rsteps: Vec<(Step, (i128, i128))>, apps_after: Vec<App>, should: bool }
    let mut done: Vec<Done> = vec![];
    let mut snap_before = hub.lock().unwrap().snapshot();
    // implementation-only perturbation (the model has no notion of it: its trace must be unchanged): every control
    // handle is dropped at the start of the last unit (if that unit's script has no control request) or at some point
    // of its reboot wait; scheduled operation must go on exactly as if the handles were still there
    // second perturbation: somebody else (the embedder) holds the shared app-set lock while the machine is polled for the
    // first time, and lets go afterwards; the machine has to wait for the lock, not work around it
    if rng.chance(1, 4) {
        let guard = app_set.try_lock();
        hub.lock().unwrap().embedder_lock = true;
        if guard.is_some() { let n = 1 + rng.below(2); for _ in 0..n { let _ = std::panic::catch_unwind(std::panic::AssertUnwindSafe(|| { while runner.poll_stream() {} })); } }
        hub.lock().unwrap().embedder_lock = false;
        drop(guard);
        if let Some(e) = envs.get_mut(0) { e.1.push_str("contended-start/"); }
    }
    let drop_mode = if oneshot { 0 } else { match rng.below(8) { 0 => 1, 1 | 2 => 2, _ => 0 } };
    let mut dropped = false;
    for k in 0..nunits {
        if runner.ended { break; }
        let (env, mut path) = envs[k].clone();
        let mut rplan = rplans[k].clone();
        if k + 1 == nunits && drop_mode == 1 && env.during.is_empty() && !env.wake.iter().any(|s| matches!(s, Step::Ctl(..) | Step::Race(..) | Step::Ctl2(..) | Step::CtlQueued(..))) {
            rplan.retain(|(s, _)| !matches!(s, RStep::Ctl(..)));
            runner.handle = None; runner.ctls.retain(|c| !c.done);
            dropped = true; path.push_str("dropctl-outer/");
        }
        let start = snap_before.trace_len;
        let mut rsteps_done: Vec<(Step, (i128, i128))> = vec![];
        let end_kind = loop {
            let r = match std::panic::catch_unwind(std::panic::AssertUnwindSafe(|| runner.run_unit())) { Ok(r) => r, Err(_) => break UnitEnd::Panicked };
            if r == UnitEnd::Crashed { break r; }
            if r != UnitEnd::Stalled { break r; }
            let in_reboot = hub.lock().unwrap().reboot_phase;
            if !in_reboot { break r; }
            if k + 1 == nunits && drop_mode == 2 && !dropped && rng.chance(1, 2) {
                rplan.retain(|(s, _)| !matches!(s, RStep::Ctl(..)));
                runner.handle = None; runner.ctls.retain(|c| !c.done);
                dropped = true; path.push_str("dropctl-reboot/");
                continue;                                   // let the machine react (it must not)
            }
            // resolve the next symbolic step against the timers armed so far in this unit
            let Some((rs, d)) = rplan.pop_front() else { break r; };
            let (t30, pings) = {
                let h = hub.lock().unwrap();
                let mut t30 = None; let mut pings: Vec<usize> = vec![]; let mut idx = 0usize; let mut prev = String::new(); let mut in_reboot = false;
                for l in &h.trace[start..] {
                    if l.starts_with("P rebootallowed") { in_reboot = true; }
                    if l.starts_with("T arm") {
                        if in_reboot { if prev.starts_with("P rebootallowed") { t30 = Some(idx); } else { pings.push(idx); } }
                        idx += 1;
                    }
                    if l.starts_with("P next") && in_reboot { pings.clear(); }
                    prev = l.clone();
                }
                (t30, pings)
            };
            let rs0 = rs.clone();
            let step = match rs {
                RStep::Fire30 => t30.map(Step::Fire),
                RStep::FirePing(k) => if pings.is_empty() { None } else { Some(Step::Fire(pings[k % pings.len()])) },
                RStep::Ctl(id, od) => Some(Step::Ctl(id, od)),
            };
            let Some(step) = step else { break r; };
            // a ping timer and a scheduled-source request at the same instant
            if let (Step::Fire(i), true) = (&step, matches!(rs0, RStep::FirePing(_))) {
                if runner.handle.is_some() && rng.chance(1, 3) {
                    let id = 1000 * k + 400 + rsteps_done.len();
                    rsteps_done.push((step.clone(), d));
                    rsteps_done.push((Step::Ctl(id, false), (0, 0)));
                    hub.lock().unwrap().env.rsteps.push_back((Step::FireCtl(*i, id), d));
                    if !path.contains("rrace/") { path.push_str("rrace/"); }
                    continue;
                }
            }
            rsteps_done.push((step.clone(), d));
            hub.lock().unwrap().env.rsteps.push_back((step, d));
        };
        if end_kind == UnitEnd::Crashed { break; }      // the unit in flight is lost with the process
        let (snap_after, jit, sfail_obs) = {
            let h = hub.lock().unwrap();
            if h.boundaries.len() > k { (h.boundaries[k].clone(), h.jit_log[k].clone(), h.sfail_log[k].clone()) } else { (h.snapshot(), h.jitters.clone(), h.sfail_obs.clone()) }
        };
        let apps_after = futures::executor::block_on(app_set.lock()).apps.clone();
        let waited = hub.lock().unwrap().trace[start..snap_after.trace_len].iter().any(|l| l.starts_with("M waitedreboot"));
        let mut env = env;
        // the storage failures this unit's operations actually got, in the order of the operations
        env.sfail = sfail_obs.into_iter().collect();
        if let Some(m) = hub.lock().unwrap().mock.as_mut() {
            // the replies the mock server gave are this unit's HTTP outcomes, as if they had been scripted
            env.uc.clear(); env.ev.clear(); env.pg.clear();
            for (kind, o) in m.log.drain(..) { match kind.as_str() { "uc" => env.uc.push_back(o), "ev" => env.ev.push_back(o), _ => env.pg.push_back(o) } }
        }
        // control requests scripted for "during the check" that never found their exchange did not happen
        let delivered = { let h = hub.lock().unwrap(); if h.during_log.len() > k { h.during_log[k] } else { h.during_done } };
        if !delivered { env.during = vec![]; }
        // a raced outer wait: the reply says which branch of the `select!` won; the unit is then the same as one where only
        // that branch became ready (the timers' expiry is not part of the other one's trace)
        let mut strip_fires = false;
        let mut path = path;
        if let Some(Step::Race(id, od)) = env.wake.last().cloned() {
            let reply = runner.replies.iter().find(|(i, _)| *i == id).map(|(_, r)| r.clone());
            match reply.as_deref() {
                Some("started") | Some("throttled") => { env.wake = vec![Step::Ctl(id, od)]; strip_fires = true; path.push_str("race-ctl/"); }
                _ => { env.wake.pop(); env.during = vec![(id, od)]; env.during_at = 0; path.push_str("race-timer/"); }
            }
        }
        done.push(Done { strip_fires, env, path, start, end: snap_after.trace_len, snap_before: snap_before.clone(), snap_after: snap_after.clone(), end_kind, jit, rsteps: rsteps_done, apps_after, should });
        snap_before = snap_after;
        if waited { should = false; }
        let last = done.last().unwrap();
        if last.end_kind == UnitEnd::Stalled || last.end_kind == UnitEnd::StreamEnded || last.end_kind == UnitEnd::Panicked { break; }
    }
    let mut peek_panicked = false;
    // a final peek so that the last unit's end-of-unit context is observable
    if crash_at.is_none() && !oneshot && !runner.ended && done.last().map(|d| d.end_kind != UnitEnd::Panicked).unwrap_or(true) && done.last().map(|d| d.end_kind == UnitEnd::Idle || d.end_kind == UnitEnd::Negative).unwrap_or(false) {
        // (a panic here belongs to the next iteration of the loop: it is reported as a case without a scenario)
        if std::panic::catch_unwind(std::panic::AssertUnwindSafe(|| { runner.run_unit(); })).is_err() { peek_panicked = true; }
    }
    let all_replies = runner.replies.clone();
    let trace = hub.lock().unwrap().trace.clone();
    for (k, d) in done.iter().enumerate() {
        let stripped: Vec<String>;
        let lines: &[String] = if d.strip_fires {
            let mut seen_allowed = false;
            stripped = trace[d.start..d.end].iter().filter(|l| { if l.starts_with("P allowed") { seen_allowed = true; } seen_allowed || !l.starts_with("T fire") }).cloned().collect();
            &stripped
        } else { &trace[d.start..d.end] };
        let mode = if oneshot { "oneshot" } else if k == 0 { "start" } else { "run" };
        // start state
        let (apps_tok_s, ctx_tok) = if mode == "run" {
            match lines.iter().find(|l| l.starts_with("P next")) { Some(l) => ctx_from_pnext(l), None => ("-".into(), "lut=- lct=- nxt=- poll=- fails=0 proxied=0".into()) }
        } else { (apps_tok(&init.presets), "lut=- lct=- nxt=- poll=- fails=0 proxied=0".into()) };
        let input = format!("mode={} {} apps={} {} {} clk={},{} rs={}:{}:{} {}", mode, init_tokens(&init), apps_tok_s, ctx_tok,
            store_tok(&d.snap_before.pending, &d.snap_before.committed), d.snap_before.wall, d.snap_before.mono,
            start_mono, fin0.map(|f| f.to_string()).unwrap_or("-".into()), d.should as u8, unit_tokens(&d.env, &d.jit, &d.rsteps));
        // end state: context from the next `P next` (run) or the last events (oneshot)
        let mut out: Vec<String> = canon_draws(lines);
        let mut replies: Vec<(usize, String)> = all_replies.iter().filter(|(id, _)| id / 1000 == k || (*id >= 900_000 && id - 900_000 == k)).cloned().collect(); replies.sort();
        for (id, r) in &replies { out.push(format!("R {} {}", id, r)); }
        let end_ctx = if oneshot {
            let sched = lines.iter().rev().find(|l| l.starts_with("E sched ")).map(|l| l[8..].to_string());
            let proto = lines.iter().rev().find(|l| l.starts_with("E proto ")).map(|l| l[8..].to_string());
            match (sched, proto) { (Some(s), Some(p)) => format!("{} {}", s, p), _ => "?".into() }
        } else {
            match trace[d.end..].iter().find(|l| l.starts_with("P next")) {
                Some(l) => { let (_, c) = ctx_from_pnext(l); c.replace("nxt=", "next=") }
                None => "?".into(),
            }
        };
        let kind = match d.end_kind { UnitEnd::Idle | UnitEnd::Negative => "completed", UnitEnd::StreamEnded => if oneshot { "completed" } else { "ended" }, UnitEnd::Stalled | UnitEnd::Crashed | UnitEnd::Panicked => "stalled" };
        if lines.is_empty() && d.end_kind == UnitEnd::StreamEnded && !oneshot {
            out = vec!["Z notstarted".into()];
        } else {
            out.push(format!("Z {} {} apps={} {} clk={},{}", kind, end_ctx, apps_tok(&d.apps_after), store_tok(&d.snap_after.pending, &d.snap_after.committed), d.snap_after.wall, d.snap_after.mono));
        }
        // a panic inside the unit: the unit's scenario is the failing input, the answer is `panic`
        let output = if d.end_kind == UnitEnd::Panicked { "panic".to_string() } else { out.join("\t") };
        cases.push(UnitCase { input, output, class: format!("{}/{}/{:?}", mode, d.path, d.end_kind) });
    }
    if peek_panicked { cases.push(UnitCase { input: "mode=panic where=iteration-after-the-last-unit".into(), output: "panic".into(), class: "panic-in-peek".into() }); }
    drop(runner);
    crate::sm::LOCKS.with(|l| *l.borrow_mut() = None);
    let (committed, wall, exchanges) = { let mut h = hub.lock().unwrap(); (h.committed.clone(), h.wall, h.mock.as_mut().map(|m| std::mem::take(&mut m.exchanges)).unwrap_or_default()) };
    (cases, Carry { init, committed, wall, exchanges })
}

/// What a unit exercised, for the evidence file's histogram: script features (from the class path) and phases reached (from
/// the implementation's trace).
fn unit_features(class: &str, output: &str) -> Vec<&'static str> {
    let mut v = vec![];
    for (tag, name) in [("/ctl/", "woken-by-request"), ("partial+ctl/", "request-after-partial-firing"), ("/timers/", "woken-by-timers"),
        ("race-ctl/", "race-request-won"), ("race-timer/", "race-timers-won"), ("queued2/", "two-requests-queued"), ("rrace/", "reboot-wait-timer+request"),
        ("dropctl-outer/", "handles-dropped-at-wait"), ("dropctl-reboot/", "handles-dropped-in-reboot-wait"), ("contended-start/", "app-set-lock-held-at-first-poll"),
        ("strict/", "strict-executor"), ("fresh/", "fresh-waker-per-poll"), ("contend/", "embedder-lock-after-event"), ("crash-restart", "first-unit-after-a-crash"), ("Stalled", "script-ended-while-waiting")] {
        if class.contains(tag) { v.push(name); }
    }
    let has = |p: &str| output.starts_with(p) || output.contains(&format!("\t{}", p));
    for (pfx, name) in [("P allowed", "policy-asked"), ("H uc", "update-check-sent"), ("H ev", "event-report-sent"), ("H ping", "ping-sent"), ("I plan", "plan-made"),
        ("P canstart", "can-start-asked"), ("I install", "install-run"), ("E progress", "progress-delivered"), ("P rebootneeded", "reboot-needed-asked"),
        ("P rebootallowed", "reboot-wait-entered"), ("I reboot", "reboot-called"), ("M waitedreboot", "waited-for-reboot-reported"),
        ("R ", "request-answered"), ("E proto", "protocol-state-announced"), ("S commit -> err", "commit-failed"), ("S set", "storage-written")] {
        if has(pfx) { v.push(name); }
    }
    if output.contains(" -> err") && output.contains("S ") { v.push("storage-failure"); }
    if output == "panic" { v.push("panic"); }
    v
}

pub fn run(o: &Opts, rng: &mut Rng) -> Sink {
    let mut sink = Sink::new("sm");
    if o.only_corpus { return sink; }
    let n = if o.thorough { 20_000 } else { 2000 };
    for _ in 0..n {
        let oneshot = rng.chance(1, 4);
        let nunits = if oneshot { 1 } else { 1 + rng.below(4) as usize };
        let mut r = rng.fork();
        let res = std::panic::catch_unwind(std::panic::AssertUnwindSafe(|| {
            if r.chance(1, 6) {
                // crash points: run the history once to learn how long its trace is, run it again from the same seed and
                // let the process die at a random environment interaction; a new state machine is then built on what
                // survives (the committed storage at that instant) — its first unit is the case
                let seed = r.next();
                let total: usize = { let mut r1 = Rng::new(seed); let init = gen_init(&mut r1); let (cs, _) = run_history(&mut r1, init, nunits, oneshot);
                    cs.iter().map(|c| c.output.split('\t').filter(|l| !l.starts_with("R ") && !l.starts_with("Z ")).count()).sum() };
                if total > 1 {
                    let at = 1 + r.below(total as u64 - 1) as usize;
                    let mut r2 = Rng::new(seed);
                    let init = gen_init(&mut r2);
                    let (_, carry) = run_history_crash(&mut r2, init, nunits, oneshot, at);
                    let init2 = restart_init(&mut r, carry);
                    let (more, _) = run_history(&mut r, init2, 1, false);
                    let mut out = vec![];
                    for mut c in more { c.class = format!("crash-restart-{}", c.class); out.push(c); }
                    return out;
                }
            }
            let init = gen_init(&mut r);
            let (mut cases, carry) = run_history(&mut r, init, nunits, oneshot);
            // now and then the process "restarts": a new state machine on the storage the first one committed
            let mut restarts = 0;
            let mut carry = carry;
            while restarts < 2 && r.chance(1, 3) {
                restarts += 1;
                let init2 = restart_init(&mut r, carry);
                let one = r.chance(1, 4);
                let n2 = if one { 1 } else { 1 + r.below(3) as usize };
                let (more, c2) = run_history(&mut r, init2, n2, one);
                for mut c in more { c.class = format!("restart-{}", c.class); cases.push(c); }
                carry = c2;
            }
            cases
        }));
        match res {
            Ok(cases) => for c in cases {
                sink.bump(&format!("gen:{}", c.class.split('/').next().unwrap()));
                for f in unit_features(&c.class, &c.output) { sink.bump(&format!("feat:{}", f)); }
                let out = c.output;
                sink.case(c.input, Some(c.class), move || out);
            },
            Err(_) => { sink.bump("gen:panic"); sink.case("mode=panic".into(), None, || "panic".into()); }
        }
    }
    // exhaustive part (C06's quantifier is finite): every sequence of one to three per-attempt outcomes over the nine outcome
    // kinds, with CUP on and off, as the first check of a machine
    for cup in [true, false] {
        let kinds: usize = 9;
        for len in 1..=3usize {
            for code in 0..kinds.pow(len as u32) {
                let mut r = rng.fork();
                let digits: Vec<usize> = (0..len).map(|i| (code / kinds.pow(i as u32)) % kinds).collect();
                if !cup && digits.iter().any(|d| *d == 6) { continue; }          // a forged reply needs CUP
                let res = std::panic::catch_unwind(std::panic::AssertUnwindSafe(|| {
                    let mut init = gen_init(&mut r);
                    for (i, a) in init.presets.iter_mut().enumerate() { if a.id.is_empty() { a.id = format!("app-x{}", i); } if a.version == Version::from([0, 0, 0, 0]) { a.version = Version::from([1, 0, 0, 0]); } }
                    init.name = "updater".into(); init.url = "http://example.com/svc?x=1".into();
                    init.cup = if cup { Some((42, 1)) } else { None };
                    init.committed.remove(&b"server_dictated_poll_interval"[..]);
                    let (okbody, offered) = loop { let b = response_body(&mut r, &init.presets); if b.0.starts_with(b"{\"response\":{") && b.0.len() > 40 { break b; } };
                    let mk = |d: usize, r: &mut Rng| -> HttpOutcome { match d {
                        0 => HttpOutcome::Fail { kind: 't', dw: 0, dm: 0 },
                        1 => HttpOutcome::Fail { kind: 'o', dw: 3 * S, dm: 3 * S },
                        2 => HttpOutcome::Fail { kind: 'u', dw: 0, dm: 0 },
                        3 => HttpOutcome::Resp { status: *r.pick(&[301u16, 404, 429]), retry_after: None, body: okbody.clone(), authentic: true, forgery: 0, dw: 1_234_567, dm: 1_234_567 },
                        4 => HttpOutcome::Resp { status: *r.pick(&[500u16, 503]), retry_after: None, body: vec![], authentic: true, forgery: 0, dw: 0, dm: 0 },
                        5 => HttpOutcome::Resp { status: *r.pick(&[503u16, 200, 429]), retry_after: Some(b"120".to_vec()), body: okbody.clone(), authentic: true, forgery: 0, dw: 0, dm: 0 },
                        6 => HttpOutcome::Resp { status: *r.pick(&[200u16, 500]), retry_after: None, body: okbody.clone(), authentic: false, forgery: r.below(6) as u8, dw: 0, dm: 0 },
                        7 => HttpOutcome::Resp { status: 200, retry_after: None, body: b"{\"response\": truncated".to_vec(), authentic: true, forgery: 0, dw: 0, dm: 0 },
                        _ => HttpOutcome::Resp { status: 200, retry_after: None, body: okbody.clone(), authentic: true, forgery: 0, dw: 250_000_000, dm: 250_000_000 },
                    } };
                    init.force_uc = Some((digits.iter().map(|d| mk(*d, &mut r)).collect(), offered));
                    let oneshot = r.chance(1, 2);
                    run_history(&mut r, init, 1, oneshot).0
                }));
                match res {
                    Ok(cases) => for mut c in cases {
                        c.class = format!("attempts-exhaustive/{}/{}", cup as u8, digits.iter().map(|d| d.to_string()).collect::<String>());
                        sink.bump("gen:attempts-exhaustive");
                        let out = c.output;
                        sink.case(c.input, Some(c.class), move || out);
                    },
                    Err(_) => { sink.bump("gen:panic"); sink.case("mode=panic".into(), None, || "panic".into()); }
                }
            }
        }
    }
    sink
}


/// stream `smfault`: the implementation against itself — the same history once with the scripted
/// storage failures and once with a storage that works; the requests sent and the events announced
/// must be identical (the model's answer is the constant `same`: that is what
/// `storage_failures_invisible_history` proves).
pub fn run_fault(o: &Opts, rng: &mut Rng) -> Sink {
    let mut sink = Sink::new("smfault");
    if o.only_corpus { return sink; }
    let n = if o.thorough { 6000 } else { 800 };
    for _ in 0..n {
        let seed = rng.next();
        let go = |healthy: bool| -> (Vec<String>, usize, usize) {
            let mut r = Rng::new(seed);
            let oneshot = r.chance(1, 4);
            let nunits = if oneshot { 1 } else { 1 + r.below(4) as usize };
            let mut init = gen_init(&mut r);
            // storage failures are the point here: make them frequent
            let _ = &mut init;
            let (cases, _) = run_history_opt(&mut r, init, nunits, oneshot, healthy, None);
            let mut vis = vec![]; let mut nerr = 0;
            for c in &cases {
                for l in c.output.split('\t') {
                    if l.starts_with("H ") || l.starts_with("E ") { vis.push(l.to_string()); }
                    if l.starts_with("S ") && l.ends_with("-> err") { nerr += 1; }
                }
            }
            (vis, nerr, cases.len())
        };
        let res = std::panic::catch_unwind(std::panic::AssertUnwindSafe(|| { let a = go(false); let b = go(true); (a, b) }));
        match res {
            Ok(((fa, nerr, nun), (he, _, _))) => {
                let out = if fa == he { "same".to_string() } else {
                    let k = fa.iter().zip(he.iter()).position(|(x, y)| x != y).unwrap_or(fa.len().min(he.len()));
                    format!("differs at visible action {}: faulty=[{}] healthy=[{}]", k, fa.get(k).cloned().unwrap_or("<end>".into()).replace(' ', "_"), he.get(k).cloned().unwrap_or("<end>".into()).replace(' ', "_"))
                };
                sink.bump(&format!("storage-failures:{}", nerr.min(9)));
                let class = if nerr > 0 { Some(format!("units{}/fails{}/len{}", nun, nerr.min(12), fa.len().min(40))) } else { None };
                sink.case(format!("seed={}", seed), class, move || out);
            }
            Err(_) => { sink.bump("gen:panic"); sink.case(format!("seed={}", seed), None, || "panic".into()); }
        }
    }
    sink
}


/// stream `ctl`: channel-closure behaviours of the control handle, checked on the implementation
/// directly (the model does not represent a closed channel; its answers are the two constants the
/// property prescribes): a request made after the state machine is gone fails with a gone error
/// instead of hanging; dropping every handle leaves scheduled operation intact.
pub fn run_ctl(o: &Opts, rng: &mut Rng) -> Sink {
    use futures::FutureExt;
    let mut sink = Sink::new("ctl");
    if o.only_corpus { return sink; }
    let n = if o.thorough { 1600 } else { 160 };
    for k in 0..n {
        let seed = rng.next();
        let kind = k % 4;
        let res = std::panic::catch_unwind(std::panic::AssertUnwindSafe(|| -> (String, String) {
            let mut r = Rng::new(seed);
            let mut init = gen_init(&mut r);
            // valid apps only: the machine must start
            for a in init.presets.iter_mut() { if a.id.is_empty() { a.id = "app-x".into(); } if a.version == Version::from([0, 0, 0, 0]) { a.version = Version::from([1, 0, 0, 0]); } }
            init.name = "updater".into();
            let hub: H = Arc::new(Mutex::new(Hub::new(init.wall, init.mono)));
            { let mut h = hub.lock().unwrap(); h.committed = init.committed.clone(); h.cup_sign = None; }
            let config = Config { updater: Updater { name: init.name.clone(), version: Version::from(init.uver) },
                os: OS { platform: String::new(), version: init.osver.clone(), service_pack: String::new(), arch: String::new() },
                service_url: "http://example.com/".into(), omaha_public_keys: None };
            let app_set = Rc::new(FMutex::new(HAppSet { apps: init.presets.clone(), sys: init.sys.clone() }));
            let time = HTime(hub.clone());
            let builder = StateMachineBuilder::new(HPolicy { hub: hub.clone(), time: time.clone() }, HHttp(hub.clone()), HInstaller(hub.clone()), HTimer(hub.clone()),
                HMetrics(hub.clone()), Rc::new(FMutex::new(HStorage(hub.clone()))), config, app_set.clone(), None::<StandardCupv2Handler>);
            let flag = Arc::new(Flag(AtomicBool::new(false)));
            let (handle, stream) = futures::executor::block_on(builder.start());
            let nunits = 1 + r.below(3) as usize;
            let mut envs: Vec<UnitEnv> = vec![];
            for _ in 0..nunits + 2 {
                let (mut e, _) = gen_unit(&mut r, &init, &init.presets, false);
                // timers only: no control requests in these scripts
                let narm = if e.next.contains('+') { 2 } else { 1 };
                e.wake = (0..narm).map(Step::Fire).collect();
                e.during = vec![];
                e.rebootneeded = false;
                envs.push(e);
            }
            { let mut h = hub.lock().unwrap(); h.units = envs.iter().skip(1).cloned().collect(); h.env = envs[0].clone(); }
            let mut runner = Runner { hub: hub.clone(), stream: Box::pin(stream), handle: Some(handle), ctls: vec![], replies: vec![], flag, ctl_flag: Arc::new(Flag(AtomicBool::new(false))), strict: false, fresh: false, need_poll: true, next_boundary: 0, ended: false, polls: 0, stalled_wakeups: 0, contend: None, storage: None, app_set: None, contended: 0, crash_at: None, shared: None };
            if kind == 3 {
                // a sequence of operations on the channel, against the channel model (Omaha/Chan.lean): requests, environment
                // moves, runs of the machine to quiescence, the handles dropped, the machine dropped; after every operation
                // each request's future is polled and its status printed
                let mut ops: Vec<String> = vec![];
                let mut outs: Vec<String> = vec![];
                let mut ids: Vec<usize> = vec![];
                let mut next_id = 1usize;
                let nops = 4 + r.below(10);
                let drop_at = if r.chance(3, 4) { Some(r.below(nops)) } else { None };
                let mut dead = false;
                let mut spare = runner.handle.clone();          // requests are still made after `h` through a clone taken before
                for i in 0..nops {
                    let seen = runner.replies.len();
                    let mut drained = false;
                    let op = if Some(i) == drop_at && !dead { 4 } else { match r.below(10) { 0..=3 => 0, 4..=6 => 1, 7 | 8 => 2, _ => 3 } };
                    match op {
                        0 => {
                            let id = next_id; next_id += 1;
                            if runner.handle.is_none() { runner.handle = spare.take(); }
                            if runner.handle.is_none() { ops.push("e".into()); } else {
                                runner.submit_ctl(id, r.chance(1, 2));
                                ids.push(id);
                                ops.push(format!("s{}", id));
                            }
                        }
                        1 => {
                            // run the machine until it blocks (no environment move)
                            if !dead {
                                loop {
                                    let mut progressed = false;
                                    while runner.poll_stream() { progressed = true; }
                                    let before = runner.replies.len();
                                    runner.poll_ctls();
                                    if runner.replies.len() > before { progressed = true; }
                                    if !progressed && !runner.flag.0.load(Ordering::SeqCst) { break; }
                                    if !progressed { runner.flag.0.store(false, Ordering::SeqCst); }
                                }
                            }
                            drained = true;
                        }
                        2 => {
                            // one move of the environment: the exchange in flight completes, or the next timer fires
                            let mut h = hub.lock().unwrap();
                            if let Some(g) = h.http_waiting { h.http_seen += 1; h.release(g); }
                            else if let Some(Step::Fire(i)) = h.env.wake.first().cloned() { h.env.wake.remove(0); if let Some(&g) = h.timers.get(i) { h.release(g); } }
                            ops.push("e".into());
                        }
                        3 => { runner.handle = None; if r.chance(1, 2) { spare = None; } ops.push("h".into()); }
                        _ => {
                            runner.stream = Box::pin(futures::stream::empty());
                            runner.ended = true; dead = true;
                            ops.push("d".into());
                        }
                    }
                    runner.poll_ctls();
                    if drained {
                        let obs: Vec<String> = runner.replies[seen..].iter().filter(|(_, s)| s != "gone").map(|(id, s)| format!("{}:{}", id, s)).collect();
                        ops.push(format!("p{}", obs.join(",")));
                    }
                    outs.push(ids.iter().map(|id| format!("{}={}", id, runner.replies.iter().find(|(i, _)| i == id).map(|(_, s)| s.clone()).unwrap_or("pending".into()))).collect::<Vec<_>>().join(","));
                }
                (format!("seq {}", ops.join(";")), outs.join("|"))
            } else if kind == 0 {
                // gone: run some units, then drop the machine (its stream) and ask
                let before = r.below(nunits as u64 + 1) as usize;
                for _ in 0..before { runner.run_unit(); }
                let Runner { stream, handle, .. } = runner;
                drop(stream);
                let mut h = handle.unwrap();
                let opts = omaha_client::common::CheckOptions { source: if r.chance(1, 2) { omaha_client::protocol::request::InstallSource::OnDemand } else { omaha_client::protocol::request::InstallSource::ScheduledTask } };
                let fut = async move { h.start_update_check(opts).await };
                let out = match fut.now_or_never() { Some(Err(_)) => "gone", Some(Ok(_)) => "answered", None => "hangs" };
                (format!("gone after={}", before), out.to_string())
            } else if kind == 2 {
                // gone while a request is pending: the request has been sent (the machine is waiting, or in the middle of a
                // check, and has not answered yet) when the machine is dropped — the caller must get the gone error, not hang
                let before = r.below(nunits as u64) as usize;
                for _ in 0..before { runner.run_unit(); }
                let midcheck = r.chance(1, 2);
                while runner.poll_stream() {}
                if midcheck {
                    // fire the timers of the outer wait and let the machine run into its first exchange
                    let steps: Vec<Step> = std::mem::take(&mut hub.lock().unwrap().env.wake);
                    for s in steps { if let Step::Fire(i) = s { let mut h = hub.lock().unwrap(); if let Some(&g) = h.timers.get(i) { h.release(g); } } while runner.poll_stream() {} }
                } else { while runner.poll_stream() {} }
                let in_flight = hub.lock().unwrap().http_waiting.is_some();
                runner.submit_ctl(7, r.chance(1, 2));
                let answered_early = !runner.replies.is_empty();
                let Runner { stream, handle, mut ctls, .. } = runner;
                drop(stream);
                drop(handle);
                let waker = std::task::Waker::from(Arc::new(Flag(AtomicBool::new(false))));
                let mut cx = std::task::Context::from_waker(&waker);
                let out = if answered_early { "answered-before-drop".to_string() } else {
                    match ctls.pop().map(|mut c| c.fut.as_mut().poll(&mut cx)) {
                        Some(std::task::Poll::Ready(Err(_))) => "gone".to_string(),
                        Some(std::task::Poll::Ready(Ok(_))) => "answered".to_string(),
                        Some(std::task::Poll::Pending) => "hangs".to_string(),
                        None => "no-request".to_string(),
                    }
                };
                (format!("gone pending after={} midcheck={}", before, in_flight as u8), out)
            } else {
                // dropped handles: scheduled operation continues on timers alone
                runner.handle = None;
                let mut checks = 0;
                for _ in 0..nunits { runner.run_unit(); }
                { let h = hub.lock().unwrap(); for l in &h.trace { if l.starts_with("P allowed") { checks += 1; } } }
                let out = if !runner.ended && checks >= nunits { "runs".to_string() } else { format!("stopped ended={} decisions={}/{}", runner.ended, checks, nunits) };
                (format!("dropped units={}", nunits), out)
            }
        }));
        match res {
            Ok((inp, out)) => { let class = Some(if inp.starts_with("seq ") { format!("seq ops={} drop={} handles-dropped={}", inp.matches(';').count() + 1, inp.contains(";d") as u8, inp.contains(";h") as u8) } else { inp.clone() }); sink.case(format!("{} seed={}", inp, seed), class, move || out); }
            Err(_) => { sink.case(format!("panic seed={}", seed), None, || "panic".into()); }
        }
    }
    sink
}
