//! stream `version`: omaha_client::version::Version vs `Omaha.Version`.

use crate::out::{hexb, Sink};
use crate::rng::Rng;
use crate::Opts;
use omaha_client::version::Version;
use std::str::FromStr;

fn show(v: &Version) -> String {
    // Independent of Display: go through the Debug/Display-free route of comparing with arrays
    // is not available (the field is private), so use Display and cross-check it in `print`.
    v.to_string()
}

fn parse_u32s(toks: &[&str]) -> Option<Vec<u32>> {
    toks.iter().map(|t| t.parse::<u32>().ok()).collect()
}

fn from_slice(ns: &[u32]) -> Option<Version> {
    Some(match ns.len() {
        1 => Version::from([ns[0]]),
        2 => Version::from([ns[0], ns[1]]),
        3 => Version::from([ns[0], ns[1], ns[2]]),
        4 => Version::from([ns[0], ns[1], ns[2], ns[3]]),
        _ => return None,
    })
}

/// The implementation's canonical answer for one input line (without the stream name).
pub fn eval(line: &str) -> String {
    let toks: Vec<&str> = line.split(' ').filter(|s| !s.is_empty()).collect();
    match toks.as_slice() {
        ["parse", h] => {
            let bytes = match hex::decode(&h[1..]) { Ok(b) => b, Err(_) => return "bad-op".into() };
            let s = match String::from_utf8(bytes) { Ok(s) => s, Err(_) => return "bad-op".into() };
            match Version::from_str(&s) {
                Ok(v) => format!("ok {}", show(&v)),
                Err(_) => "err".into(),
            }
        }
        ["jsonde", h] => {
            // JSON deserialisation of the string token holding this text.
            let bytes = match hex::decode(&h[1..]) { Ok(b) => b, Err(_) => return "bad-op".into() };
            let s = match String::from_utf8(bytes) { Ok(s) => s, Err(_) => return "bad-op".into() };
            let text = serde_json::to_string(&s).unwrap();
            match serde_json::from_str::<Version>(&text) {
                Ok(v) => format!("ok {}", show(&v)),
                Err(_) => "err".into(),
            }
        }
        ["print", rest @ ..] if rest.len() == 4 => match parse_u32s(rest).and_then(|n| from_slice(&n)) {
            Some(v) => hexb(v.to_string().as_bytes()),
            None => "bad-op".into(),
        },
        ["json", rest @ ..] if rest.len() == 4 => match parse_u32s(rest).and_then(|n| from_slice(&n)) {
            Some(v) => hexb(serde_json::to_string(&v).unwrap().as_bytes()),
            None => "bad-op".into(),
        },
        ["cmp", rest @ ..] if rest.len() == 8 => match parse_u32s(rest) {
            Some(n) => {
                let a = from_slice(&n[0..4]).unwrap();
                let b = from_slice(&n[4..8]).unwrap();
                let o = match a.cmp(&b) {
                    std::cmp::Ordering::Less => "lt",
                    std::cmp::Ordering::Equal => "eq",
                    std::cmp::Ordering::Greater => "gt",
                };
                // PartialOrd and Eq must tell the same story as Ord.
                let po = a.partial_cmp(&b) == Some(a.cmp(&b));
                format!("{} {}{}", o, if a == b { "eq" } else { "ne" }, if po { "" } else { " partial-ord-differs" })
            }
            None => "bad-op".into(),
        },
        ["ofarr", rest @ ..] => match parse_u32s(rest).and_then(|n| from_slice(&n)) {
            Some(v) => format!("ok {}", show(&v)),
            None => "bad-op".into(),
        },
        _ => "bad-op".into(),
    }
}

const PARTS: &[&str] = &[
    "0", "1", "9", "10", "007", "+5", "+0", "4294967295", "4294967296", "04294967295",
    "99999999999999999999999", "", " 1", "1 ", "-1", "-0", "1e3", "0x1", "a", "+", "-", "++1",
    "\u{0663}", "1\u{0661}", "42", "65536", "2147483648", "+4294967295", "+4294967296", "1_0",
];
const BOUND: &[u32] = &[0, 1, 9, 10, 11, 99, 100, 255, 256, 65535, 65536, 2147483647, 2147483648, 4294967294, 4294967295];

fn comp(rng: &mut Rng) -> u32 {
    match rng.below(4) {
        0 => *rng.pick(BOUND),
        1 => rng.below(20) as u32,
        2 => rng.next() as u32,
        _ => (rng.next() as u32) >> rng.below(32),
    }
}

pub fn run(o: &Opts, rng: &mut Rng) -> Sink {
    let mut sink = Sink::new("version");
    let mut push = |sink: &mut Sink, input: String, nontrivial: bool, tag: &str| {
        sink.bump(&format!("gen:{}", tag));
        let class = if nontrivial { Some(input.clone()) } else { None };
        let i2 = input.clone();
        sink.case(input, class, move || eval(&i2));
    };
    for l in crate::corpus_lines(o, "version") {
        push(&mut sink, l, true, "corpus");
    }
    if o.only_corpus {
        return sink;
    }
    // 1. exhaustive strings over a small alphabet
    let alpha: &[u8] = b"019.+- a";
    let maxlen = if o.thorough { 6 } else { 4 };
    let mut total = 0u64;
    for len in 0..=maxlen {
        let n = (alpha.len() as u64).pow(len as u32);
        for mut k in 0..n {
            let mut s = Vec::with_capacity(len);
            for _ in 0..len { s.push(alpha[(k % alpha.len() as u64) as usize]); k /= alpha.len() as u64; }
            let nt = s.iter().any(|c| c.is_ascii_digit());
            push(&mut sink, format!("parse {}", hexb(&s)), nt, "parse-exhaustive");
            total += 1;
        }
    }
    sink.hist.insert("exhaustive-alphabet-strings".into(), total);
    // 2. structured strings: 0..6 parts of boundary components
    let n_struct = if o.thorough { 200_000 } else { 6_000 };
    for _ in 0..n_struct {
        let nparts = rng.below(7) as usize;
        let parts: Vec<String> = (0..nparts).map(|_| {
            if rng.chance(1, 3) { comp(rng).to_string() } else { rng.pick(PARTS).to_string() }
        }).collect();
        let s = parts.join(".");
        let op = if rng.chance(1, 5) { "jsonde" } else { "parse" };
        push(&mut sink, format!("{} {}", op, hexb(s.as_bytes())), nparts > 0, &format!("{}-structured-{}parts", op, nparts));
    }
    // 3. print / json / parse(print) over component tuples
    let n_tup = if o.thorough { 200_000 } else { 5_000 };
    for _ in 0..n_tup {
        let v = [comp(rng), comp(rng), comp(rng), comp(rng)];
        let nt = v.iter().any(|x| *x != 0);
        push(&mut sink, format!("print {} {} {} {}", v[0], v[1], v[2], v[3]), nt, "print");
        push(&mut sink, format!("json {} {} {} {}", v[0], v[1], v[2], v[3]), nt, "json");
        let s = format!("{}.{}.{}.{}", v[0], v[1], v[2], v[3]);
        push(&mut sink, format!("parse {}", hexb(s.as_bytes())), nt, "parse-canonical");
        let n = 1 + rng.below(4) as usize;
        let arr: Vec<String> = v[..n].iter().map(|x| x.to_string()).collect();
        push(&mut sink, format!("ofarr {}", arr.join(" ")), nt, &format!("ofarr-{}", n));
    }
    // 4. comparisons: pairs that differ at a chosen index by a chosen relation
    let n_cmp = if o.thorough { 300_000 } else { 8_000 };
    for _ in 0..n_cmp {
        let a = [comp(rng), comp(rng), comp(rng), comp(rng)];
        let mut b = a;
        let k = rng.below(5) as usize;
        for j in k..4 { if rng.chance(2, 3) { b[j] = comp(rng); } }
        if k < 4 && rng.chance(1, 2) {
            // make the decimal strings order differently from the numbers (9 vs 10)
            b[k] = a[k].wrapping_mul(10).wrapping_add(rng.below(10) as u32);
        }
        push(&mut sink, format!("cmp {} {} {} {} {} {} {} {}", a[0], a[1], a[2], a[3], b[0], b[1], b[2], b[3]),
             a != b, &format!("cmp-firstdiff-{}", (0..4).find(|&j| a[j] != b[j]).map(|j| j.to_string()).unwrap_or("none".into())));
    }
    sink
}
