//! stream `wire-req`: the real RequestBuilder (without CUP) vs `Omaha.Request`, byte-exact body.

use crate::out::{hexb, Sink};
use crate::rng::Rng;
use crate::Opts;
use futures::executor::block_on;
use omaha_client::common::{App, UserCounting};
use omaha_client::configuration::{Config, Updater};
use omaha_client::cup_ecdsa::StandardCupv2Handler;
use omaha_client::protocol::request::{Event, EventErrorCode, EventResult, EventType, InstallSource, GUID, OS};
use omaha_client::protocol::Cohort;
use omaha_client::request_builder::{RequestBuilder, RequestParams};
use omaha_client::version::Version;
use std::collections::HashMap;

pub fn guid_text(g: &GUID) -> String {
    let s = serde_json::to_string(g).unwrap();
    s.trim_matches('"').trim_start_matches('{').trim_end_matches('}').to_string()
}

#[derive(Clone)]
pub struct GApp {
    pub app: App,
}

pub fn ver_tok(v: &[u32; 4]) -> String {
    format!("{}.{}.{}.{}", v[0], v[1], v[2], v[3])
}

fn opt_hex(o: &Option<String>) -> String {
    o.as_ref().map(|s| hexb(s.as_bytes())).unwrap_or("-".into())
}

/// `id|a.b.c.d|fp|cohort|hint|name|uc|extras` with extras in the map's own iteration order
pub fn app_tok(app: &App, ver: &[u32; 4]) -> String {
    let UserCounting::ClientRegulatedByDate(uc) = app.user_counting.clone();
    let extras = if app.extra_fields.is_empty() { "-".to_string() } else {
        app.extra_fields.iter().map(|(k, v)| format!("{}={}", hexb(k.as_bytes()), hexb(v.as_bytes()))).collect::<Vec<_>>().join("&")
    };
    format!("{}|{}|{}|{}|{}|{}|{}|{}", hexb(app.id.as_bytes()), ver_tok(ver), opt_hex(&app.fingerprint),
        opt_hex(&app.cohort.id), opt_hex(&app.cohort.hint), opt_hex(&app.cohort.name),
        uc.map(|n| n.to_string()).unwrap_or("-".into()), extras)
}

const STRS: &[&str] = &["", "a", "app id", "q\"uote", "back\\slash", "tab\there", "nl\nx", "\u{1}ctl", "\u{1f}", "\u{7f}del", "üñí", "日本", "😀", "{braces}", "a/b:c", "ﬁ", "\r", "\u{8}\u{c}", "x=1&y=2", "stable-channel", "1:1:", "fuchsia:test"];
const IDS: &[&str] = &["{00000000-0000-0000-0000-000000000001}", "app1", "app2", "app3", "fuchsia:prod", "id with space", "ünï", "", "appid", "q\"id\\", "app4", "app5", "{8A69D345-D564-463C-AFF1-A69D9E530F96}", "tab\tid", "bad\u{1}id"];
const EXTRA_KEYS: &[&str] = &["key1", "key2", "channel", "appid", "version", "ping", "product_id", "k\"q", "ünï"];

fn s(rng: &mut Rng) -> String {
    // now and then a very long value of multi-byte characters (a server-assigned cohort name is not length-checked):
    // bodies of several KiB, with character boundaries at every alignment
    if rng.chance(1, 40) {
        let n = 1500 + rng.below(1500) as usize;
        let unit = *rng.pick(&["\u{e9}", "\u{65e5}", "\u{1f600}", "a\u{e9}"]);
        return format!("{}{}", "x".repeat(rng.below(4) as usize), unit.repeat(n));
    }
    if rng.chance(1, 5) {
        let n = rng.below(6) as usize;
        (0..n).map(|_| char::from_u32(*rng.pick(&[0x22u32, 0x5c, 0x2f, 0x08, 0x0a, 0x1b, 0x20, 0x41, 0x7e, 0x7f, 0x80, 0xe9, 0x2028, 0x1f600, 0xfffd])).unwrap()).collect()
    } else {
        rng.pick(STRS).to_string()
    }
}

fn opt_s(rng: &mut Rng) -> Option<String> {
    if rng.chance(1, 2) { Some(s(rng)) } else { None }
}

pub fn gen_version(rng: &mut Rng) -> [u32; 4] {
    let c = |rng: &mut Rng| *rng.pick(&[0u32, 1, 2, 9, 10, 255, 65536, u32::MAX, 20200101]);
    [c(rng), c(rng), c(rng), c(rng)]
}

pub fn gen_app(rng: &mut Rng, id: &str) -> (App, [u32; 4]) {
    let ver = gen_version(rng);
    let mut extras = HashMap::new();
    let ne = if rng.chance(1, 2) { 0 } else { rng.below(4) };
    for _ in 0..ne {
        extras.insert(rng.pick(EXTRA_KEYS).to_string(), s(rng));
    }
    let mut builder_app = App::builder().id(id).version(ver).build();
    builder_app.fingerprint = opt_s(rng);
    builder_app.cohort = Cohort { id: opt_s(rng), hint: opt_s(rng), name: opt_s(rng) };
    builder_app.user_counting = UserCounting::ClientRegulatedByDate(if rng.chance(1, 2) { Some(*rng.pick(&[0u32, 1, 4775, u32::MAX])) } else { None });
    builder_app.extra_fields = extras;
    (builder_app, ver)
}

pub fn gen_event(rng: &mut Rng) -> (Event, String) {
    let types = [(EventType::Unknown, 0), (EventType::DownloadComplete, 1), (EventType::InstallComplete, 2), (EventType::UpdateComplete, 3),
        (EventType::UpdateDownloadStarted, 13), (EventType::UpdateDownloadFinished, 14), (EventType::RebootedAfterUpdate, 54)];
    let results = [(EventResult::Error, 0), (EventResult::Success, 1), (EventResult::SuccessAndRestartRequired, 2), (EventResult::SuccessAndAppRestartRequired, 3),
        (EventResult::Cancelled, 4), (EventResult::ErrorInSystemInstaller, 8), (EventResult::UpdateDeferred, 9)];
    let codes = [(EventErrorCode::ParseResponse, 0), (EventErrorCode::ConstructInstallPlan, 1), (EventErrorCode::Installation, 2), (EventErrorCode::DeniedByPolicy, 3)];
    let t = rng.pick(&types).clone();
    let r = rng.pick(&results).clone();
    let c = if rng.chance(1, 2) { Some(rng.pick(&codes).clone()) } else { None };
    let pv = opt_s(rng);
    let nv = opt_s(rng);
    let dl = if rng.chance(1, 2) { Some(*rng.pick(&[0u64, 1, 1234, u32::MAX as u64 + 1, u64::MAX])) } else { None };
    let tok = format!("{}/{}/{}/{}/{}/{}", t.1, r.1, c.as_ref().map(|c| c.1.to_string()).unwrap_or("-".into()), opt_hex(&pv), opt_hex(&nv), dl.map(|d| d.to_string()).unwrap_or("-".into()));
    (Event { event_type: t.0, event_result: r.0, errorcode: c.map(|c| c.0), previous_version: pv, next_version: nv, download_time_ms: dl }, tok)
}

#[derive(Clone)]
enum Op {
    Uc(App),
    Pg(App),
    Ev(App, Event),
    Rid(GUID),
    Sid(GUID),
}

fn apply<'a>(b: RequestBuilder<'a>, op: &Op) -> RequestBuilder<'a> {
    match op {
        Op::Uc(a) => b.add_update_check(a),
        Op::Pg(a) => b.add_ping(a),
        Op::Ev(a, e) => b.add_event(a, e.clone()),
        Op::Rid(g) => b.request_id(g.clone()),
        Op::Sid(g) => b.session_id(g.clone()),
    }
}

fn show_request(cfg: &Config, b: &RequestBuilder<'_>) -> String {
    let one = |b: &RequestBuilder<'_>| -> String {
        match b.build(None::<&StandardCupv2Handler>) {
            Err(_) => "err".to_string(),
            Ok((req, meta)) => {
                let (parts, body) = req.into_parts();
                let body = block_on(hyper::body::to_bytes(body)).unwrap();
                let hdrs: Vec<String> = parts.headers.iter().map(|(k, v)| format!("{}={}", k.as_str(), hexb(v.as_bytes()))).collect();
                let mut out = format!("hdrs {} body {}", hdrs.join(","), hexb(&body));
                if parts.method != http::Method::POST { out += " !method"; }
                if parts.uri.to_string() != cfg.service_url { out += " !uri"; }
                if meta.is_some() { out += " !metadata-without-cup"; }
                out
            }
        }
    };
    let a = one(b);
    let a2 = one(b);
    if a != a2 { return format!("{} !rebuild-differs", a); }
    a
}

pub fn gen_config(rng: &mut Rng) -> (Config, String) {
    let name = if rng.chance(1, 12) { "bad\u{1}name".to_string() } else if rng.chance(1, 12) { s(rng) } else {
        rng.pick(&["updater", "omaha-client", "üpdater", "a b\tc", "q\"uote\\", "", "日本", "x-1.2"]).to_string() };
    let uv = gen_version(rng);
    let os = OS { platform: s(rng), version: s(rng), service_pack: s(rng), arch: s(rng) };
    let url = rng.pick(&["http://example.com/", "https://omaha.example.org:8443/service/update/json", "http://[::1]:8080/u?x=1", "https://clients2.google.com/service/update2/json"]).to_string();
    let tok = format!("{},{},{},{},{},{},{}", hexb(name.as_bytes()), ver_tok(&uv), hexb(os.platform.as_bytes()), hexb(os.version.as_bytes()),
        hexb(os.service_pack.as_bytes()), hexb(os.arch.as_bytes()), hexb(url.as_bytes()));
    (Config { updater: Updater { name, version: Version::from(uv) }, os, service_url: url, omaha_public_keys: None }, tok)
}

pub fn run(o: &Opts, rng: &mut Rng) -> Sink {
    let mut sink = Sink::new("wire-req");
    // no eval-from-line for this stream: GUIDs are drawn by the library, so cases are generated only
    if o.only_corpus { return sink; }
    let n = if o.thorough { 60_000 } else { 3_000 };
    for _ in 0..n {
        let (cfg, cfg_tok) = gen_config(rng);
        let params = RequestParams {
            source: if rng.chance(1, 2) { InstallSource::OnDemand } else { InstallSource::ScheduledTask },
            use_configured_proxies: rng.chance(1, 2),
            disable_updates: rng.chance(1, 3),
            offer_update_if_same_version: rng.chance(1, 3),
        };
        let params_tok = format!("{}:{}:{}", if params.source == InstallSource::OnDemand { "od" } else { "st" }, params.disable_updates as u8, params.offer_update_if_same_version as u8);
        // a small pool of ids so that repeats (with differing app data) are frequent
        let pool: Vec<&str> = (0..1 + rng.below(3)).map(|_| *rng.pick(IDS)).collect();
        let mut toks: Vec<Vec<String>> = vec![vec![], vec![]];
        let mut ops: Vec<Vec<Op>> = vec![vec![], vec![]];
        let mut kinds = String::new();
        for phase in 0..2 {
            let nops = if phase == 0 { rng.below(7) } else { rng.below(4) };
            for _ in 0..nops {
                // repeat an earlier operation verbatim (same app data, same event) now and then
                let prior: usize = toks[0].len() + if phase == 1 { toks[1].len() } else { 0 };
                if prior > 0 && rng.chance(1, 4) {
                    let k = rng.below(prior as u64) as usize;
                    let (ph, ix) = if k < toks[0].len() { (0, k) } else { (1, k - toks[0].len()) };
                    let t = toks[ph][ix].clone();
                    let o = ops[ph][ix].clone();
                    kinds.push(match &o { Op::Uc(_) => 'U', Op::Pg(_) => 'P', Op::Ev(..) => 'E', Op::Rid(_) => 'R', Op::Sid(_) => 'S' });
                    toks[phase].push(t);
                    ops[phase].push(o);
                    continue;
                }
                let id = *rng.pick(&pool);
                let (app, ver) = gen_app(rng, id);
                match rng.below(8) {
                    0 | 1 => { toks[phase].push(format!("uc:{}", app_tok(&app, &ver))); ops[phase].push(Op::Uc(app)); kinds.push('u'); }
                    2 | 3 => { toks[phase].push(format!("pg:{}", app_tok(&app, &ver))); ops[phase].push(Op::Pg(app)); kinds.push('p'); }
                    4 | 5 => { let (e, et) = gen_event(rng); toks[phase].push(format!("ev:{}:{}", app_tok(&app, &ver), et)); ops[phase].push(Op::Ev(app, e)); kinds.push('e'); }
                    6 => { let g = GUID::new(); toks[phase].push(format!("rid:{}", hexb(guid_text(&g).as_bytes()))); ops[phase].push(Op::Rid(g)); kinds.push('r'); }
                    _ => { let g = GUID::new(); toks[phase].push(format!("sid:{}", hexb(guid_text(&g).as_bytes()))); ops[phase].push(Op::Sid(g)); kinds.push('s'); }
                }
            }
            kinds.push('#');
        }
        let join = |v: &Vec<String>| if v.is_empty() { "-".to_string() } else { v.join(";") };
        let input = format!("build {} {} {} {}", cfg_tok, params_tok, join(&toks[0]), join(&toks[1]));
        let nontrivial = ops[0].len() + ops[1].len() >= 2;
        let class = if nontrivial { Some(format!("{}/{}/{}", kinds, params_tok, pool.len())) } else { None };
        sink.bump(&format!("gen:ops{}", ops[0].len() + ops[1].len()));
        sink.case(input, class, || {
            let mut b = RequestBuilder::new(&cfg, &params);
            for op in &ops[0] { b = apply(b, op); }
            let a = show_request(&cfg, &b);
            for op in &ops[1] { b = apply(b, op); }
            let c = show_request(&cfg, &b);
            format!("{} | {}", a, c)
        });
    }
    sink
}
