//! stream `gen`: the real `async_generator::generate` driven by a manual poller with a flag waker,
//! vs `Omaha.Gen`. A case is a program (operations of the generator task) and a schedule (polls and
//! external events); compared: every poll result, whether the root waker was woken during each
//! step, and `is_terminated()` after each poll.

use crate::out::Sink;
use crate::rng::Rng;
use crate::Opts;
use futures::stream::{FusedStream, Stream};
use omaha_client::async_generator::{generate, GeneratorState, Yield};
use std::future::Future;
use std::pin::Pin;
use std::sync::atomic::{AtomicBool, Ordering};
use std::sync::{Arc, Mutex};
use std::task::{Context, Poll, Wake, Waker};

#[derive(Clone, Debug)]
pub enum Op { Yield(u32), YieldAll(Vec<u32>), SelfWake, ExtWait(usize), Drop, Ret(u32) }

#[derive(Clone, Debug)]
pub enum Step { Poll, Fire(usize) }

struct Flag(AtomicBool);
impl Wake for Flag { fn wake(self: Arc<Self>) { self.0.store(true, Ordering::SeqCst); } }

#[derive(Default)]
struct Gates { fired: Vec<usize>, wakers: Vec<(usize, Waker)> }

struct ExtFuture { k: usize, gates: Arc<Mutex<Gates>> }
impl Future for ExtFuture {
    type Output = ();
    fn poll(self: Pin<&mut Self>, cx: &mut Context<'_>) -> Poll<()> {
        let mut g = self.gates.lock().unwrap();
        if g.fired.contains(&self.k) { Poll::Ready(()) } else {
            let k = self.k;
            g.wakers.retain(|(j, _)| *j != k);
            g.wakers.push((k, cx.waker().clone()));
            Poll::Pending
        }
    }
}

struct YieldOnce(bool);
impl Future for YieldOnce {
    type Output = ();
    fn poll(mut self: Pin<&mut Self>, cx: &mut Context<'_>) -> Poll<()> {
        if self.0 { Poll::Ready(()) } else { self.0 = true; cx.waker().wake_by_ref(); Poll::Pending }
    }
}

pub fn op_tok(o: &Op) -> String {
    match o {
        Op::Yield(x) => format!("y{}", x),
        Op::YieldAll(xs) => format!("ya{}", xs.iter().map(|x| x.to_string()).collect::<Vec<_>>().join(".")),
        Op::SelfWake => "sw".into(), Op::ExtWait(k) => format!("ew{}", k), Op::Drop => "drop".into(), Op::Ret(r) => format!("ret{}", r),
    }
}

pub fn step_tok(s: &Step) -> String { match s { Step::Poll => "p".into(), Step::Fire(k) => format!("f{}", k) } }

/// Run a program under a schedule against the real generator.
pub fn run_real(prog: &[Op], sched: &[Step]) -> String {
    let gates = Arc::new(Mutex::new(Gates::default()));
    let g2 = gates.clone();
    let prog2: Vec<Op> = prog.to_vec();
    let gen = generate(move |co: Yield<u32>| async move {
        let mut co = Some(co);
        for op in prog2 {
            match op {
                Op::Yield(x) => { if let Some(c) = co.as_mut() { c.yield_(x).await; } }
                Op::YieldAll(xs) => { if let Some(c) = co.as_mut() { c.yield_all(xs).await; } }
                Op::SelfWake => { YieldOnce(false).await; }
                Op::ExtWait(k) => { ExtFuture { k, gates: g2.clone() }.await; }
                Op::Drop => { co.take(); }
                Op::Ret(r) => { return r; }
            }
        }
        0u32
    });
    let mut gen = Box::pin(gen);
    let flag = Arc::new(Flag(AtomicBool::new(false)));
    let waker = Waker::from(flag.clone());
    let mut out: Vec<String> = vec![];
    for s in sched {
        flag.0.store(false, Ordering::SeqCst);
        match s {
            Step::Poll => {
                let mut cx = Context::from_waker(&waker);
                let r = match gen.as_mut().poll_next(&mut cx) {
                    Poll::Pending => "pending".to_string(),
                    Poll::Ready(Some(GeneratorState::Yielded(x))) => format!("item:{}", x),
                    Poll::Ready(Some(GeneratorState::Complete(r))) => format!("complete:{}", r),
                    Poll::Ready(None) => "none".to_string(),
                };
                out.push(format!("{}/w{}/t{}", r, flag.0.load(Ordering::SeqCst) as u8, gen.is_terminated() as u8));
            }
            Step::Fire(k) => {
                let w = { let mut g = gates.lock().unwrap(); if !g.fired.contains(k) { g.fired.push(*k); }
                    let mut found = None; g.wakers.retain(|(j, w)| if j == k { found = Some(w.clone()); false } else { true }); found };
                if let Some(w) = w { w.wake(); }
                out.push(format!("fired/w{}", flag.0.load(Ordering::SeqCst) as u8));
            }
        }
    }
    out.join(" ")
}

fn gen_prog(rng: &mut Rng, maxlen: usize) -> Vec<Op> {
    let n = rng.below(maxlen as u64 + 1) as usize;
    let mut dropped = false;
    let mut v = vec![];
    let mut next = 1u32;
    for _ in 0..n {
        let k = if dropped { 2 + rng.below(3) } else { rng.below(6) };
        match k {
            0 => { v.push(Op::Yield(next)); next += 1; }
            1 => { let m = rng.below(4) as usize; v.push(Op::YieldAll((0..m).map(|_| { next += 1; next - 1 }).collect())); }
            2 => v.push(Op::SelfWake),
            3 => v.push(Op::ExtWait(rng.below(3) as usize)),
            4 => { if rng.chance(1, 4) { v.push(Op::Ret(rng.below(100) as u32)); break; } else { v.push(Op::SelfWake) } }
            _ => { v.push(Op::Drop); dropped = true; }
        }
    }
    if rng.chance(3, 4) && !matches!(v.last(), Some(Op::Ret(_))) { v.push(Op::Ret(rng.below(100) as u32)); }
    v
}

fn gen_sched(rng: &mut Rng, prog: &[Op]) -> Vec<Step> {
    // enough polls to finish in most cases, with spurious polls and delayed / early / repeated firings
    let work: usize = prog.iter().map(|o| match o { Op::YieldAll(xs) => xs.len() + 1, _ => 2 }).sum::<usize>() + 3;
    let n = work + rng.below(work as u64 + 2) as usize;
    let mut v = vec![];
    for _ in 0..n { if rng.chance(1, 5) { v.push(Step::Fire(rng.below(3) as usize)); } else { v.push(Step::Poll); } }
    // make sure every awaited event fires eventually, then drain
    for k in 0..3 { if rng.chance(2, 3) { v.push(Step::Fire(k)); v.push(Step::Poll); } }
    for _ in 0..(work / 2 + 2) { v.push(Step::Poll); }
    v
}

fn all_progs(alphabet: &[Op], len: usize) -> Vec<Vec<Op>> {
    let mut res: Vec<Vec<Op>> = vec![vec![]];
    let mut frontier: Vec<Vec<Op>> = vec![vec![]];
    for _ in 0..len {
        let mut next = vec![];
        for p in &frontier {
            if matches!(p.last(), Some(Op::Ret(_))) { continue; }
            let dropped = p.iter().any(|o| matches!(o, Op::Drop));
            for o in alphabet {
                if dropped && matches!(o, Op::Yield(_) | Op::YieldAll(_) | Op::Drop) { continue; }
                let mut q = p.clone(); q.push(o.clone()); next.push(q);
            }
        }
        res.extend(next.iter().cloned());
        frontier = next;
    }
    res
}

pub fn run(o: &Opts, rng: &mut Rng) -> Sink {
    let mut sink = Sink::new("gen");
    let mut push = |sink: &mut Sink, prog: Vec<Op>, sched: Vec<Step>, tag: &str| {
        let input = format!("prog={} sched={}", prog.iter().map(op_tok).collect::<Vec<_>>().join(","), sched.iter().map(step_tok).collect::<Vec<_>>().join(","));
        let nontrivial = prog.iter().any(|o| matches!(o, Op::Yield(_) | Op::YieldAll(_)));
        let class = if nontrivial { Some(format!("{}/{}", tag, input)) } else { None };
        sink.bump(&format!("gen:{}", tag));
        for o in &prog { sink.bump(&format!("op:{}", match o { Op::Yield(_) => "yield", Op::YieldAll(_) => "yield_all", Op::SelfWake => "self_wake", Op::ExtWait(_) => "ext_wait", Op::Drop => "drop", Op::Ret(_) => "ret" })); }
        sink.case(input, class, move || run_real(&prog, &sched));
    };
    for l in crate::corpus_lines(o, "gen") {
        // replay: prog=... sched=...
        let mut prog = vec![]; let mut sched = vec![];
        for t in l.split(' ') {
            if let Some(p) = t.strip_prefix("prog=") { for x in p.split(',').filter(|x| !x.is_empty()) {
                prog.push(if x == "sw" { Op::SelfWake } else if x == "drop" { Op::Drop } else if let Some(r) = x.strip_prefix("ret") { Op::Ret(r.parse().unwrap_or(0)) }
                    else if let Some(r) = x.strip_prefix("ew") { Op::ExtWait(r.parse().unwrap_or(0)) } else if let Some(r) = x.strip_prefix("ya") { Op::YieldAll(r.split('.').filter(|y| !y.is_empty()).map(|y| y.parse().unwrap_or(0)).collect()) }
                    else { Op::Yield(x[1..].parse().unwrap_or(0)) }); } }
            if let Some(p) = t.strip_prefix("sched=") { for x in p.split(',').filter(|x| !x.is_empty()) { sched.push(if x == "p" { Step::Poll } else { Step::Fire(x[1..].parse().unwrap_or(0)) }); } }
        }
        push(&mut sink, prog, sched, "corpus");
    }
    if o.only_corpus { return sink; }
    // exhaustive short programs under an eager schedule and under a lazy one
    let alphabet = vec![Op::Yield(1), Op::YieldAll(vec![2, 3]), Op::YieldAll(vec![]), Op::SelfWake, Op::ExtWait(0), Op::Drop, Op::Ret(7)];
    let maxlen = if o.thorough { 5 } else { 4 };
    for p in all_progs(&alphabet, maxlen) {
        let polls = 2 * p.len() + 8;
        let mut eager: Vec<Step> = vec![Step::Fire(0)]; eager.extend((0..polls).map(|_| Step::Poll));
        push(&mut sink, p.clone(), eager, "exhaustive-eager");
        let mut lazy: Vec<Step> = (0..polls).map(|_| Step::Poll).collect(); lazy.push(Step::Fire(0)); lazy.extend((0..polls).map(|_| Step::Poll));
        push(&mut sink, p, lazy, "exhaustive-late-fire");
    }
    let n = if o.thorough { 300_000 } else { 40_000 };
    for _ in 0..n {
        let prog = gen_prog(rng, 12);
        let sched = gen_sched(rng, &prog);
        push(&mut sink, prog, sched, "random");
    }
    sink
}
