//! stream `time`: omaha_client::time (conversions, ComplexTime / PartialComplexTime arithmetic,
//! StorageExt::{set_time,get_time}) vs `Omaha.Time`.
//!
//! Wall times are written as i128 nanoseconds relative to the UNIX epoch, monotonic times as i128
//! nanoseconds relative to a per-process origin `Instant` far from the ends of the platform range.

use crate::out::Sink;
use crate::rng::Rng;
use crate::Opts;
use futures::executor::block_on;
use omaha_client::storage::{MemStorage, StorageExt};
use omaha_client::time::system_time_conversion::{
    checked_system_time_to_micros_from_epoch, micros_from_epoch_to_system_time,
};
use omaha_client::time::{ComplexTime, PartialComplexTime};
use std::time::{Duration, Instant, SystemTime};

const NS: i128 = 1_000_000_000;

pub fn dur(ns: u128) -> Option<Duration> {
    let secs = ns / NS as u128;
    if secs > u64::MAX as u128 {
        return None;
    }
    Some(Duration::new(secs as u64, (ns % NS as u128) as u32))
}

pub fn wall(ns: i128) -> Option<SystemTime> {
    if ns >= 0 {
        SystemTime::UNIX_EPOCH.checked_add(dur(ns as u128)?)
    } else {
        SystemTime::UNIX_EPOCH.checked_sub(dur((-ns) as u128)?)
    }
}

pub fn wall_ns(t: SystemTime) -> i128 {
    match t.duration_since(SystemTime::UNIX_EPOCH) {
        Ok(d) => d.as_nanos() as i128,
        Err(e) => -(e.duration().as_nanos() as i128),
    }
}

thread_local! {
    static ORIGIN: Instant = Instant::now() + Duration::from_secs(1 << 40);
}

pub fn mono(ns: i128) -> Option<Instant> {
    ORIGIN.with(|o| {
        if ns >= 0 {
            o.checked_add(dur(ns as u128)?)
        } else {
            o.checked_sub(dur((-ns) as u128)?)
        }
    })
}

pub fn mono_ns(t: Instant) -> i128 {
    ORIGIN.with(|o| {
        if t >= *o {
            t.duration_since(*o).as_nanos() as i128
        } else {
            -(o.duration_since(t).as_nanos() as i128)
        }
    })
}

fn pct(kind: &str, w: i128, m: i128) -> Option<PartialComplexTime> {
    Some(match kind {
        "wall" => PartialComplexTime::Wall(wall(w)?),
        "mono" => PartialComplexTime::Monotonic(mono(m)?),
        "complex" => PartialComplexTime::Complex(ComplexTime { wall: wall(w)?, mono: mono(m)? }),
        _ => return None,
    })
}

fn show_pct(p: PartialComplexTime) -> String {
    match p {
        PartialComplexTime::Wall(w) => format!("wall {}", wall_ns(w)),
        PartialComplexTime::Monotonic(m) => format!("mono {}", mono_ns(m)),
        PartialComplexTime::Complex(c) => format!("complex {} {}", wall_ns(c.wall), mono_ns(c.mono)),
    }
}

fn opt(o: Option<i128>) -> String {
    match o {
        Some(x) => format!("some {}", x),
        None => "none".into(),
    }
}

pub fn eval(line: &str) -> String {
    let t: Vec<&str> = line.split(' ').filter(|s| !s.is_empty()).collect();
    let int = |s: &str| s.parse::<i128>().ok();
    let bad = || "bad-op".to_string();
    macro_rules! get {
        ($e:expr) => {
            match $e {
                Some(x) => x,
                None => return bad(),
            }
        };
    }
    match t.as_slice() {
        ["to_micros", x] => {
            let w = get!(int(x).and_then(wall));
            opt(checked_system_time_to_micros_from_epoch(w).map(|m| m as i128))
        }
        ["from_micros", m] => {
            let m = get!(m.parse::<i64>().ok());
            format!("{}", wall_ns(micros_from_epoch_to_system_time(m)))
        }
        ["roundtrip", m] => {
            let m = get!(m.parse::<i64>().ok());
            opt(checked_system_time_to_micros_from_epoch(micros_from_epoch_to_system_time(m)).map(|m| m as i128))
        }
        ["truncate", x] => {
            let w = get!(int(x).and_then(wall));
            let c = ComplexTime { wall: w, mono: get!(mono(12345)) };
            let r = c.truncate_submicrosecond_walltime();
            if mono_ns(r.mono) != 12345 {
                return "mono-changed".into();
            }
            format!("{}", wall_ns(r.wall))
        }
        ["store", x] => {
            let w = get!(int(x).and_then(wall));
            let mut st = MemStorage::new();
            // a previous value must not survive a time that does not fit
            block_on(st.set_time("k", SystemTime::UNIX_EPOCH + Duration::from_secs(77))).unwrap();
            block_on(st.set_time("k", w)).unwrap();
            opt(block_on(st.get_time("k")).map(wall_ns))
        }
        [op @ ("pct_add" | "pct_sub"), k, w, m, d] => {
            let p = get!(pct(k, get!(int(w)), get!(int(m))));
            let d = get!(d.parse::<u128>().ok().and_then(dur));
            let r = if *op == "pct_add" { p + d } else { p - d };
            // the assigning forms must agree with the operators
            let mut q = p;
            if *op == "pct_add" { q += d } else { q -= d }
            if q != r { return "assign-differs".into(); }
            show_pct(r)
        }
        [op @ ("ct_add" | "ct_sub"), w, m, d] => {
            let c = ComplexTime { wall: get!(int(w).and_then(wall)), mono: get!(int(m).and_then(mono)) };
            let d = get!(d.parse::<u128>().ok().and_then(dur));
            let r = if *op == "ct_add" { c + d } else { c - d };
            let mut q = c;
            if *op == "ct_add" { q += d } else { q -= d }
            if q != r { return "assign-differs".into(); }
            format!("{} {}", wall_ns(r.wall), mono_ns(r.mono))
        }
        ["complete", k, w, m, cw, cm] => {
            let p = get!(pct(k, get!(int(w)), get!(int(m))));
            let c = ComplexTime { wall: get!(int(cw).and_then(wall)), mono: get!(int(cm).and_then(mono)) };
            let r = p.complete_with(c);
            format!("{} {}", wall_ns(r.wall), mono_ns(r.mono))
        }
        ["destructure", k, w, m] => {
            let p = get!(pct(k, get!(int(w)), get!(int(m))));
            let (a, b) = p.destructure();
            if a != p.checked_to_system_time() || b != p.checked_to_instant() {
                return "checked-accessors-differ".into();
            }
            format!("{} {}", opt(a.map(wall_ns)), opt(b.map(mono_ns)))
        }
        ["pct_to_micros", k, w, m] => {
            let p = get!(pct(k, get!(int(w)), get!(int(m))));
            opt(p.checked_to_micros_since_epoch().map(|x| x as i128))
        }
        ["after", w, m, k, ow, om] => {
            let c = ComplexTime { wall: get!(int(w).and_then(wall)), mono: get!(int(m).and_then(mono)) };
            let p = get!(pct(k, get!(int(ow)), get!(int(om))));
            format!("{}", c.is_after_or_eq_any(p))
        }
        _ => bad(),
    }
}

const I64MIN: i128 = i64::MIN as i128;
const I64MAX: i128 = i64::MAX as i128;
const WALL_MIN: i128 = I64MIN * NS;
const WALL_MAX: i128 = I64MAX * NS + 999_999_999;

fn wall_value(rng: &mut Rng) -> i128 {
    match rng.below(8) {
        0 => rng.range(-5000, 5000) as i128,
        1 => {
            // microsecond boundaries at ns granularity, either side of the epoch
            let us = rng.range(-1_000_000, 1_000_000) as i128;
            us * 1000 + rng.range(-2, 2) as i128
        }
        2 => {
            // around the i64-microsecond limits
            let base = if rng.chance(1, 2) { I64MAX * 1000 } else { I64MIN * 1000 };
            base + rng.range(-3000, 3000) as i128
        }
        3 => {
            let base = if rng.chance(1, 2) { WALL_MAX } else { WALL_MIN };
            let v = base + if base > 0 { -(rng.below(3_000_000_000) as i128) } else { rng.below(3_000_000_000) as i128 };
            v
        }
        4 => 1_700_000_000i128 * NS + rng.below(1u64 << 40) as i128,
        5 => -(rng.next() as i128 >> rng.below(64)),
        6 => (rng.next() as i128) * (rng.below(1000) as i128 + 1),
        _ => -(rng.next() as i128) * (rng.below(1000) as i128 + 1),
    }
}

fn mono_value(rng: &mut Rng) -> i128 {
    match rng.below(3) {
        0 => rng.range(-5, 5) as i128,
        1 => rng.range(-1_000_000_000_000, 1_000_000_000_000) as i128,
        _ => rng.range(-(1i64 << 60), 1i64 << 60) as i128,
    }
}

fn dur_value(rng: &mut Rng) -> u128 {
    match rng.below(6) {
        0 => rng.below(3) as u128,
        1 => rng.below(5_000_000_000) as u128,
        2 => (rng.next() >> rng.below(64)) as u128,
        // mono components stay far from the platform limits: durations on two-clock values are
        // capped at 2^38 s unless the wall component is what overflows first
        3 => (rng.below(1 << 38) as u128) * NS as u128,
        4 => rng.below(1u64 << 62) as u128,
        _ => rng.below(1_000_000) as u128 * 1000,
    }
}

fn kind(rng: &mut Rng) -> &'static str {
    *rng.pick(&["wall", "mono", "complex"])
}

pub fn run(o: &Opts, rng: &mut Rng) -> Sink {
    let mut sink = Sink::new("time");
    let push = |sink: &mut Sink, input: String, nontrivial: bool, tag: &str| {
        sink.bump(&format!("gen:{}", tag));
        let class = if nontrivial { Some(input.clone()) } else { None };
        let i2 = input.clone();
        sink.case(input, class, move || eval(&i2));
    };
    for l in crate::corpus_lines(o, "time") {
        push(&mut sink, l, true, "corpus");
    }
    if o.only_corpus {
        return sink;
    }
    // boundary enumeration
    for base in [I64MIN, I64MIN + 1, -1, 0, 1, I64MAX - 1, I64MAX] {
        for d in -2..=2i128 {
            let m = base + d;
            if m >= I64MIN && m <= I64MAX {
                push(&mut sink, format!("roundtrip {}", m), true, "roundtrip-boundary");
                push(&mut sink, format!("from_micros {}", m), true, "from_micros-boundary");
            }
        }
    }
    for us in [I64MIN, I64MIN + 1, -2, -1, 0, 1, 2, I64MAX - 1, I64MAX] {
        for d in [-1001i128, -1000, -999, -501, -500, -2, -1, 0, 1, 2, 500, 999, 1000, 1001] {
            let t = us * 1000 + d;
            for op in ["to_micros", "truncate", "store"] {
                push(&mut sink, format!("{} {}", op, t), true, &format!("{}-boundary", op));
            }
        }
    }
    for t in [WALL_MIN, WALL_MIN + 1, WALL_MAX - 1, WALL_MAX] {
        for op in ["to_micros", "store"] {
            push(&mut sink, format!("{} {}", op, t), true, &format!("{}-platform-limit", op));
        }
        for d in [0u128, 1, 2, 1_000_000_000] {
            push(&mut sink, format!("pct_add wall {} 0 {}", t, d), true, "pct_add-platform-limit");
            push(&mut sink, format!("pct_sub wall {} 0 {}", t, d), true, "pct_sub-platform-limit");
            push(&mut sink, format!("ct_add {} 7 {}", t, d), true, "ct_add-platform-limit");
            push(&mut sink, format!("ct_sub {} 7 {}", t, d), true, "ct_sub-platform-limit");
        }
    }
    let n = if o.thorough { 150_000 } else { 4_000 };
    for _ in 0..n {
        let m = match rng.below(3) { 0 => rng.next() as i64, 1 => (rng.next() as i64) >> rng.below(64), _ => rng.range(-100000, 100000) };
        push(&mut sink, format!("roundtrip {}", m), m != 0, "roundtrip");
        push(&mut sink, format!("from_micros {}", m), m != 0, "from_micros");
        let t = wall_value(rng).clamp(WALL_MIN, WALL_MAX);
        let op = *rng.pick(&["to_micros", "truncate", "store", "to_micros"]);
        // truncate needs one microsecond of head room at the very ends of the platform range
        if op == "truncate" && (t > WALL_MAX - 1000 || t < WALL_MIN + 1000) { continue; }
        push(&mut sink, format!("{} {}", op, t), t != 0, op);
        // arithmetic
        let k = kind(rng);
        let w = wall_value(rng).clamp(WALL_MIN, WALL_MAX);
        let mo = mono_value(rng);
        let mut d = dur_value(rng);
        if k != "wall" { d = d.min((1u128 << 38) * NS as u128); }
        let op = *rng.pick(&["pct_add", "pct_sub"]);
        push(&mut sink, format!("{} {} {} {} {}", op, k, w, mo, d), d != 0, &format!("{}-{}", op, k));
        let op = *rng.pick(&["ct_add", "ct_sub"]);
        let d2 = dur_value(rng).min((1u128 << 38) * NS as u128);
        push(&mut sink, format!("{} {} {} {}", op, w, mo, d2), d2 != 0, op);
        let k = kind(rng);
        push(&mut sink, format!("complete {} {} {} {} {}", k, w, mo, wall_value(rng).clamp(WALL_MIN, WALL_MAX), mono_value(rng)), true, &format!("complete-{}", k));
        push(&mut sink, format!("destructure {} {} {}", k, w, mo), true, &format!("destructure-{}", k));
        push(&mut sink, format!("pct_to_micros {} {} {}", k, w, mo), true, &format!("pct_to_micros-{}", k));
        // comparisons: other side near this side
        let k = kind(rng);
        let ow = if rng.chance(1, 2) { w + rng.range(-2, 2) as i128 } else { wall_value(rng) }.clamp(WALL_MIN, WALL_MAX);
        let om = if rng.chance(1, 2) { mo + rng.range(-2, 2) as i128 } else { mono_value(rng) };
        let rel = format!("{}{}", if w >= ow { "w+" } else { "w-" }, if mo >= om { "m+" } else { "m-" });
        push(&mut sink, format!("after {} {} {} {} {}", w, mo, k, ow, om), true, &format!("after-{}-{}", k, rel));
    }
    sink
}
