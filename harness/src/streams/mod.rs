pub mod cup;
pub mod resp;
pub mod sm;
pub mod time;
pub mod uri;
pub mod version;
pub mod wire_req;
pub mod gen;
