pub mod time;
pub mod version;
