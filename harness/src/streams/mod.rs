pub mod version;
