pub mod cup;
pub mod time;
pub mod version;
pub mod wire_req;
