pub mod cup;
pub mod time;
pub mod version;
