pub mod cup;
pub mod resp;
pub mod time;
pub mod version;
pub mod wire_req;
