//! stream `smmock`: the real state machine driven against the in-process mock Omaha server.
//! Two kinds of lines: `sm …` — the unit, with the replies the mock actually gave written as the unit's
//! HTTP outcomes, against the state-machine model; `mock …` — each request the machine actually sent and
//! what the mock did with it, against the mock model. The authenticity flag of a reply is what the two
//! key configurations imply (server holds the client's key id with the same key pair, no forced ETag);
//! the machine's real verifier has to come to the same conclusion for the traces to agree.

use crate::out::{hexb, Sink};
use crate::rng::Rng;
use crate::sm::MockReply;
use crate::streams::mock::{gen_server, ServerCfg};
use crate::streams::sm::{gen_init, run_history};
use crate::Opts;
use omaha_client::protocol::response::parse_json_response;
use omaha_client::version::Version;
use std::rc::Rc;

fn opt_hex(o: Option<&str>) -> String { o.map(|s| hexb(s.as_bytes())).unwrap_or("-".into()) }

/// `id~version~updatedisabled|-~cohort|-~hasEvent` per app of the request body, as the `mock` stream writes them.
fn apps_tok(body: &[u8]) -> Option<String> {
    let v: serde_json::Value = serde_json::from_slice(body).ok()?;
    let apps = v["request"]["app"].as_array()?;
    Some(apps.iter().map(|a| {
        let uc = match a.get("updatecheck") { None => "-".to_string(), Some(u) => (u.get("updatedisabled").and_then(|x| x.as_bool()).unwrap_or(false) as u8).to_string() };
        format!("{}~{}~{}~{}~{}", hexb(a["appid"].as_str().unwrap_or("").as_bytes()), hexb(a["version"].as_str().unwrap_or("").as_bytes()), uc,
            opt_hex(a.get("cohort").and_then(|c| c.as_str())), a.get("event").is_some() as u8)
    }).collect::<Vec<_>>().join(";"))
}

pub fn run(o: &Opts, rng: &mut Rng) -> Sink {
    let mut sink = Sink::new("smmock");
    if o.only_corpus { return sink; }
    let n = if o.thorough { 6000 } else { 500 };
    for _ in 0..n {
        let mut r = rng.fork();
        let res = std::panic::catch_unwind(std::panic::AssertUnwindSafe(|| {
            let mut init = gen_init(&mut r);
            for (i, a) in init.presets.iter_mut().enumerate() {
                if a.id.is_empty() { a.id = format!("app-x{}", i); }
                if a.version == Version::from([0, 0, 0, 0]) { a.version = Version::from([1, 0, 0, 0]); }
            }
            init.name = "updater".into();
            init.url = r.pick(&["http://example.com/svc?x=1", "https://omaha.example:8443/", "http://example.com/?cup2key=9:00"]).to_string();
            let ids: Vec<String> = init.presets.iter().map(|a| a.id.clone()).collect();
            let versions: Vec<String> = init.presets.iter().map(|a| a.version.to_string()).collect();
            let mut server: ServerCfg = gen_server(&mut r, &ids, &versions);
            // mostly a plain configuration (the outcome clause), now and then the odd ones
            if r.chance(3, 4) { server.etag_override = None; server.require_cup = false; }
            if r.chance(1, 2) { let k = server.resp[0].1; let kk = server.resp[0].2; for x in server.resp.iter_mut() { x.1 = k; x.2 = kk; } }
            init.cup = match r.below(6) {
                0 | 1 => None,
                2 | 3 => Some(server.latest),
                4 if !server.hist.is_empty() => Some(*r.pick(&server.hist)),
                4 => Some((999, 0)),
                _ => Some((server.latest.0, (server.latest.1 + 1) % 4)),
            };
            let server = Rc::new(server);
            init.mock = Some(server.clone());
            let oneshot = r.chance(1, 3);
            let nunits = if oneshot { 1 } else { 1 + r.below(2) as usize };
            let kinds: String = server.resp.iter().map(|x| &x.1[..2]).collect::<Vec<_>>().join("");
            let cupcls = match init.cup { None => "nocup", Some(c) if c == server.latest => "latest", Some(c) if server.hist.contains(&c) => "hist", Some((999, _)) => "unknown", _ => "wrongkey" };
            let (cases, carry) = run_history(&mut r, init, nunits, oneshot);
            let mut out: Vec<(String, String, String)> = vec![];
            for c in cases { out.push((format!("sm {}", c.input), c.output, format!("sm/{}/{}/{}", kinds, cupcls, c.class))); }
            for (origin, body, reply) in carry.exchanges {
                let Some(apps) = apps_tok(&body) else { continue; };
                let input = format!("mock {} uri={} apps={} client=-", server.tok(), hexb(origin.as_bytes()), apps);
                let output = match reply {
                    MockReply::Panic => "panic".to_string(),
                    MockReply::Error => "error".to_string(),
                    MockReply::Reply { status, etag, body: rbody } => {
                        if status == 500 && rbody.is_empty() { "status500".to_string() } else {
                            let etag_tok = match (&server.etag_override, &etag) { (Some(o), Some(e)) if o.as_bytes() == &e[..] => format!("override:{}", hexb(e)), (_, Some(_)) => "signed".into(), (_, None) => "none".into() };
                            let parse = match parse_json_response(&rbody) { Ok(x) => crate::streams::resp::dump(&x), Err(_) => "err".into() };
                            format!("ok body={} etag={} verify=- other=- lean=- parse={}", hexb(&rbody), etag_tok, parse)
                        }
                    }
                };
                let kind = if apps.contains("~1") && apps.ends_with("~1") { "ev" } else { "uc-or-ping" };
                out.push((input, output, format!("mock/{}/{}/{}", kinds, cupcls, kind)));
            }
            out
        }));
        match res {
            Ok(cases) => for (input, output, class) in cases {
                sink.bump(&format!("gen:{}", class.split('/').take(2).collect::<Vec<_>>().join("-")));
                if input.starts_with("sm ") { if let Some(r) = output.split('\t').find(|l| l.starts_with("E result")) { sink.bump(&format!("outcome:{}", r.split(' ').take(3).collect::<Vec<_>>().join("-"))); } }
                sink.case(input, Some(class), move || output);
            },
            Err(_) => { sink.bump("gen:panic"); sink.case("sm mode=panic".into(), None, || "panic".into()); }
        }
    }
    sink
}
