//! stream `cup`: StandardCupv2Handler::{verify_response, verify_response_with_signature} vs
//! `Omaha.Cup` instantiated with the Lean SHA-256 / P-256.
//!
//! Authentic exchanges are signed here over a digest this file composes itself (never through
//! `make_transaction_hash`), so signer and verifier do not share an oracle.

use crate::out::{hexb, Sink};
use crate::rng::Rng;
use crate::Opts;
use omaha_client::cup_ecdsa::{
    CupVerificationError, Cupv2RequestHandler, Cupv2Verifier, Nonce, PublicKeyAndId, PublicKeys,
    RequestMetadata, StandardCupv2Handler,
};
use p256::ecdsa::signature::{Signature as _, Signer};
use p256::ecdsa::{DerSignature, SigningKey, VerifyingKey};
use sha2::{Digest, Sha256};

pub fn signing_key(i: usize) -> SigningKey {
    let mut b = [0u8; 32];
    for (j, x) in b.iter_mut().enumerate() {
        *x = (17 * (i as u8 + 1)).wrapping_mul(j as u8 + 3) ^ 0x5a;
    }
    b[0] = 0x11 + i as u8;
    SigningKey::from_bytes(&b).expect("test key")
}

pub fn pub_xy(vk: &VerifyingKey) -> (String, String) {
    let p = vk.to_encoded_point(false);
    (hex::encode(p.x().unwrap()), hex::encode(p.y().unwrap()))
}

pub fn err_name(e: &CupVerificationError) -> &'static str {
    match e {
        CupVerificationError::EtagHeaderMissing => "EtagHeaderMissing",
        CupVerificationError::EtagNotString(_) => "EtagNotString",
        CupVerificationError::EtagMalformed => "EtagMalformed",
        CupVerificationError::RequestHashMalformed => "RequestHashMalformed",
        CupVerificationError::RequestHashMismatch => "RequestHashMismatch",
        CupVerificationError::SignatureMalformed => "SignatureMalformed",
        CupVerificationError::SpecifiedPublicKeyIdMissing => "SpecifiedPublicKeyIdMissing",
        CupVerificationError::SignatureError(_) => "SignatureError",
    }
}

/// keys token: `id:X:Y,id:X:Y`, first = latest
fn parse_keys(tok: &str) -> Option<PublicKeys> {
    let mut v = vec![];
    for e in tok.split(',') {
        let p: Vec<&str> = e.split(':').collect();
        if p.len() != 3 {
            return None;
        }
        let id: u64 = p[0].parse().ok()?;
        let mut sec1 = vec![4u8];
        sec1.extend(hex::decode(p[1]).ok()?);
        sec1.extend(hex::decode(p[2]).ok()?);
        let key = VerifyingKey::from_sec1_bytes(&sec1).ok()?;
        v.push(PublicKeyAndId { key, id });
    }
    let latest = v.remove(0);
    Some(PublicKeys { latest, historical: v })
}

fn unhex(t: &str) -> Option<Vec<u8>> {
    hex::decode(t.strip_prefix('x')?).ok()
}

pub fn eval(line: &str) -> String {
    let t: Vec<&str> = line.split(' ').filter(|s| !s.is_empty()).collect();
    eval_tokens(&t, None)
}

/// `shared`: verify on this handler instead of a fresh one (it must have been built from the line's keys).
fn eval_tokens(t: &[&str], shared: Option<&StandardCupv2Handler>) -> String {
    let bad = || "bad-op".to_string();
    match t {
        // `warm <verify line A> <verify line B>` (same key set): A, then B, on ONE handler instance; the answer is B's.
        // Verification is a function of its arguments: what a handler verified before must not matter.
        ["warm", a @ .., ] if a.len() == 14 && a[1] == a[8] => {
            let keys = match parse_keys(a[1]) { Some(k) => k, None => return bad() };
            let handler = StandardCupv2Handler::new(&keys);
            let _ = eval_tokens(&a[..7], Some(&handler));
            eval_tokens(&a[7..], Some(&handler))
        }
        [op @ ("verify" | "verifysig"), keys, kid, nonce, req, resp, last] => {
            let (keys, kid, nonce, req, resp) = match (
                parse_keys(keys), kid.parse::<u64>().ok(), unhex(nonce), unhex(req), unhex(resp),
            ) {
                (Some(a), Some(b), Some(c), Some(d), Some(e)) => (a, b, c, d, e),
                _ => return bad(),
            };
            let nonce: [u8; 32] = match nonce.try_into() { Ok(n) => n, Err(_) => return bad() };
            let fresh;
            let handler: &StandardCupv2Handler = match shared { Some(h) => h, None => { fresh = StandardCupv2Handler::new(&keys); &fresh } };
            if *op == "verify" {
                let mut builder = http::Response::builder().status(200);
                if *last != "absent" {
                    let raw = match unhex(last) { Some(r) => r, None => return bad() };
                    let hv = match http::HeaderValue::from_bytes(&raw) { Ok(h) => h, Err(_) => return bad() };
                    builder = builder.header(http::header::ETAG, hv);
                    // a second ETag header must be ignored (the first one is used)
                    builder = builder.header(http::header::ETAG, "deadbeef:00");
                }
                let response = builder.body(resp).unwrap();
                let meta = RequestMetadata {
                    request_body: req,
                    // deliberately different from `kid`: verify_response must use its argument
                    public_key_id: kid.wrapping_add(1000),
                    nonce: Nonce::from(nonce),
                };
                match handler.verify_response(&meta, &response, kid) {
                    Ok(sig) => format!("ok {}", hexb(sig.as_bytes())),
                    Err(e) => format!("err {}", err_name(&e)),
                }
            } else {
                let sig = match unhex(last).and_then(|b| DerSignature::from_bytes(&b).ok()) {
                    Some(s) => s,
                    None => return bad(),
                };
                match handler.verify_response_with_signature(&sig, &req, &resp, kid, &Nonce::from(nonce)) {
                    Ok(()) => "ok".into(),
                    Err(e) => format!("err {}", err_name(&e)),
                }
            }
        }
        ["sha256", m] => match unhex(m) {
            Some(m) => hexb(&Sha256::digest(&m)),
            None => bad(),
        },
        ["der", s] => match unhex(s) {
            Some(b) => match DerSignature::from_bytes(&b) {
                Ok(d) => {
                    if d.as_bytes() != &b[..] { return "as-bytes-differs".into(); }
                    "ok".into()
                }
                Err(_) => "err".into(),
            },
            None => bad(),
        },
        _ => bad(),
    }
}

// ---------------------------------------------------------------------------------------------

fn der_int(mag: &[u8]) -> Vec<u8> {
    let mut m: &[u8] = mag;
    while m.len() > 1 && m[0] == 0 {
        m = &m[1..];
    }
    let mut c = vec![];
    if m.is_empty() { c.push(0) } else {
        if m[0] >= 0x80 { c.push(0); }
        c.extend_from_slice(m);
    }
    let mut out = vec![2u8, c.len() as u8];
    out.extend(c);
    out
}

fn der_sig(r: &[u8], s: &[u8]) -> Vec<u8> {
    let mut c = der_int(r);
    c.extend(der_int(s));
    let mut out = vec![0x30u8, c.len() as u8];
    out.extend(c);
    out
}

const N_ORDER: [u8; 32] = [
    0xff, 0xff, 0xff, 0xff, 0x00, 0x00, 0x00, 0x00, 0xff, 0xff, 0xff, 0xff, 0xff, 0xff, 0xff, 0xff,
    0xbc, 0xe6, 0xfa, 0xad, 0xa7, 0x17, 0x9e, 0x84, 0xf3, 0xb9, 0xca, 0xc2, 0xfc, 0x63, 0x25, 0x51,
];

fn sub_be(a: &[u8; 32], b: &[u8]) -> Vec<u8> {
    // a - b for 32-byte big endian, a >= b
    let mut out = vec![0u8; 32];
    let mut borrow = 0i32;
    for i in (0..32).rev() {
        let mut d = a[i] as i32 - b[i] as i32 - borrow;
        if d < 0 { d += 256; borrow = 1 } else { borrow = 0 }
        out[i] = d as u8;
    }
    out
}

struct Exchange {
    req: Vec<u8>,
    resp: Vec<u8>,
    nonce: [u8; 32],
    kid: u64,
    sig_rs: Vec<u8>, // 64 bytes r || s
}

fn compose(req: &[u8], resp: &[u8], kid: u64, nonce: &[u8], variant: u64) -> Vec<u8> {
    let rh = Sha256::digest(req).to_vec();
    let ph = Sha256::digest(resp).to_vec();
    let key = format!("{}:{}", kid, hex::encode(nonce)).into_bytes();
    let mut m = vec![];
    match variant {
        0 => { m.extend(&rh); m.extend(&ph); m.extend(&key); }
        1 => { m.extend(&ph); m.extend(&rh); m.extend(&key); }          // swapped hashes
        2 => { m.extend(&rh); m.extend(&key); }                           // response hash missing
        3 => { m.extend(&rh); m.extend(&ph); }                            // cup2key missing
        4 => { m.extend(&key); m.extend(&rh); m.extend(&ph); }           // key first
        5 => { m.extend(req); m.extend(resp); m.extend(&key); }          // bodies unhashed
        6 => { m.extend(&rh); m.extend(&ph);                              // nonce without zero padding
               m.extend(format!("{}:{}", kid, nonce.iter().map(|b| format!("{:x}", b)).collect::<String>()).as_bytes()); }
        7 => { m.extend(&rh); m.extend(&ph); m.extend(format!("{}:{}", kid, hex::encode_upper(nonce)).as_bytes()); }
        _ => { m.extend(&rh); m.extend(&ph); m.extend(format!("{}{}", kid, hex::encode(nonce)).as_bytes()); } // no colon
    }
    Sha256::digest(&m).to_vec()
}

fn body(rng: &mut Rng) -> Vec<u8> {
    match rng.below(6) {
        0 => vec![],
        1 => br#"{"request":{"protocol":"3.0"}}"#.to_vec(),
        2 => { let n = rng.below(70) as usize; rng.bytes(n) }
        3 => { let n = 55 + rng.below(12) as usize; rng.bytes(n) }     // around the SHA-256 padding boundary
        4 => { let n = rng.below(4096) as usize; rng.bytes(n) }
        _ => { let n = 119 + rng.below(12) as usize; vec![b'a'; n] }
    }
}

pub fn run(o: &Opts, rng: &mut Rng) -> Sink {
    let mut sink = Sink::new("cup");
    let push = |sink: &mut Sink, input: String, class: String, tag: &str| {
        sink.bump(&format!("gen:{}", tag));
        let i2 = input.clone();
        sink.case(input, Some(class), move || eval(&i2));
    };
    for l in crate::corpus_lines(o, "cup") {
        push(&mut sink, l.clone(), l, "corpus");
    }
    if o.only_corpus {
        return sink;
    }
    let sks: Vec<SigningKey> = (0..5).map(signing_key).collect();
    let pks: Vec<(String, String)> = sks.iter().map(|k| pub_xy(&k.verifying_key())).collect();
    let n = if o.thorough { 3000 } else { 150 };
    let mut prev: Option<(String, Exchange)> = None;
    for case in 0..n {
        // key set: latest + 0..3 historical, ids small, occasional duplicate id
        let nkeys = 1 + rng.below(4) as usize;
        let mut ids: Vec<u64> = vec![];
        let mut keyidx: Vec<usize> = vec![];
        for _ in 0..nkeys {
            let id = if !ids.is_empty() && rng.chance(1, 6) { *rng.pick(&ids) } else { *rng.pick(&[0u64, 1, 7, 42, 123456789, u64::MAX, 1 << 32]) };
            ids.push(id);
            keyidx.push(rng.below(4) as usize);
        }
        let keys_tok: String = ids.iter().zip(&keyidx).map(|(i, k)| format!("{}:{}:{}", i, pks[*k].0, pks[*k].1)).collect::<Vec<_>>().join(",");
        // the key registered for an id is the last one listed with it
        let reg = |id: u64| -> Option<usize> { ids.iter().zip(&keyidx).rev().find(|(i, _)| **i == id).map(|(_, k)| *k) };
        let kid = *rng.pick(&ids);
        let signer = reg(kid).unwrap();
        let req = body(rng);
        let resp = body(rng);
        let mut nonce = [0u8; 32];
        for b in nonce.iter_mut() { *b = if rng.chance(1, 4) { rng.below(17) as u8 } else { rng.next() as u8 }; }
        // DER integers are minimal-length: about one authentic signature in 60 is shorter than 70 bytes. Every fifth case
        // looks for one (the response body gets a counter appended until r or s has a leading zero byte).
        let mut resp = resp;
        if case % 5 == 1 {
            let base = resp.clone();
            for k in 0..600u32 {
                let mut cand = base.clone(); cand.extend_from_slice(format!(" {}", k).as_bytes());
                let d = compose(&req, &cand, kid, &nonce, 0);
                let sg: p256::ecdsa::Signature = sks[signer].sign(&d);
                let b = sg.as_bytes();
                if b[0] == 0 || b[32] == 0 { resp = cand; break; }
            }
        }
        let digest = compose(&req, &resp, kid, &nonce, 0);
        let sig: p256::ecdsa::Signature = sks[signer].sign(&digest);
        let rs = sig.as_bytes().to_vec();
        if rs[0] == 0 || rs[32] == 0 { sink.bump("gen:short-der-signature"); }
        let ex = Exchange { req: req.clone(), resp: resp.clone(), nonce, kid, sig_rs: rs.clone() };
        let der = der_sig(&rs[..32], &rs[32..]);
        let hash = Sha256::digest(&req).to_vec();
        let enc = |rng: &mut Rng, text: String| -> Vec<u8> {
            match rng.below(3) { 0 => text.into_bytes(), 1 => format!("\"{}\"", text).into_bytes(), _ => format!("W/\"{}\"", text).into_bytes() }
        };
        let line = |keys: &str, kid: u64, nonce: &[u8], req: &[u8], resp: &[u8], etag: Option<&[u8]>| {
            format!("verify {} {} {} {} {} {}", keys, kid, hexb(nonce), hexb(req), hexb(resp), etag.map(hexb).unwrap_or("absent".into()))
        };
        let good_text = format!("{}:{}", hex::encode(&der), hex::encode(&hash));
        // 0. authentic, each encoding
        for e in 0..3 {
            let raw = match e { 0 => good_text.clone(), 1 => format!("\"{}\"", good_text), _ => format!("W/\"{}\"", good_text) };
            push(&mut sink, line(&keys_tok, kid, &nonce, &req, &resp, Some(raw.as_bytes())), format!("authentic/enc{}/keys{}", e, nkeys), "authentic");
        }
        if case == 0 {
            // every short header value over the characters the ETag grammar gives a meaning to
            let alphabet: &[u8] = b"\"W/:a0";
            let maxlen = if o.thorough { 5 } else { 4 };
            let mut frontier: Vec<Vec<u8>> = vec![vec![]];
            for len in 0..=maxlen {
                for v in &frontier {
                    push(&mut sink, line(&keys_tok, kid, &nonce, &req, &resp, Some(v)), format!("short-etag/{}/{}", len, String::from_utf8_lossy(v)), "short-etag");
                }
                if len < maxlen { frontier = frontier.iter().flat_map(|v| alphabet.iter().map(move |c| { let mut x = v.clone(); x.push(*c); x })).collect(); }
            }
        }
        push(&mut sink, format!("verifysig {} {} {} {} {} {}", keys_tok, kid, hexb(&nonce), hexb(&req), hexb(&resp), hexb(&der)), format!("verifysig-authentic/{}", case % 7), "verifysig");
        push(&mut sink, format!("sha256 {}", hexb(&req)), format!("sha256/len{}", req.len()), "sha256");
        // mutations
        let nmut = if o.thorough { 40 } else { 24 };
        for _ in 0..nmut {
            let kind = rng.below(22);
            let mut q_req = req.clone(); let mut q_resp = resp.clone(); let mut q_nonce = nonce; let mut q_kid = kid;
            let mut q_keys = keys_tok.clone();
            let mut text = good_text.clone();
            let mut raw_override: Option<Option<Vec<u8>>> = None;
            let tag: String;
            match kind {
                0 => { let mut d = der.clone(); let i = rng.below(d.len() as u64 * 8) as usize; d[i / 8] ^= 1 << (i % 8);
                       text = format!("{}:{}", hex::encode(&d), hex::encode(&hash)); tag = "flip-sig".into(); }
                1 => { let mut h = hash.clone(); let i = rng.below(256) as usize; h[i / 8] ^= 1 << (i % 8);
                       text = format!("{}:{}", hex::encode(&der), hex::encode(&h)); tag = "flip-hash".into(); }
                2 => { if q_resp.is_empty() { q_resp.push(1) } else { let i = rng.below(q_resp.len() as u64 * 8) as usize; q_resp[i / 8] ^= 1 << (i % 8); } tag = "flip-resp".into(); }
                3 => { if q_req.is_empty() { q_req.push(1) } else { let i = rng.below(q_req.len() as u64 * 8) as usize; q_req[i / 8] ^= 1 << (i % 8); } tag = "flip-req".into(); }
                4 => { let i = rng.below(256) as usize; q_nonce[i / 8] ^= 1 << (i % 8); tag = "flip-nonce".into(); }
                5 => { q_kid = if rng.chance(1, 2) { *rng.pick(&ids) } else { kid ^ (1 << rng.below(64)) }; tag = if ids.contains(&q_kid) { "kid-other-registered".into() } else { "kid-unregistered".into() }; }
                6 => { if let Some((ptext, _)) = &prev { text = ptext.clone(); } tag = "swap-etag".into(); }
                7 => { let k = rng.below(text.len() as u64 + 1) as usize; text.truncate(k); tag = "truncate".into(); }
                8 => { let other = (signer + 1 + rng.below(4) as usize) % 5; let s2: p256::ecdsa::Signature = sks[other].sign(&digest); let b = s2.as_bytes().to_vec();
                       text = format!("{}:{}", hex::encode(der_sig(&b[..32], &b[32..])), hex::encode(&hash)); tag = "resign-other-key".into(); }
                9 => { let v = 1 + rng.below(8); let d2 = compose(&req, &resp, kid, &nonce, v); let s2: p256::ecdsa::Signature = sks[signer].sign(&d2); let b = s2.as_bytes().to_vec();
                       text = format!("{}:{}", hex::encode(der_sig(&b[..32], &b[32..])), hex::encode(&hash)); tag = format!("recompose-{}", v); }
                10 => { let k = rng.below(33) as usize; let mut h = hash[..k.min(32)].to_vec(); if rng.chance(1, 3) { h = hash.clone(); let extra = 1 + rng.below(3) as usize; h.extend(rng.bytes(extra)); }
                        text = format!("{}:{}", hex::encode(&der), hex::encode(&h)); tag = if h.len() < 32 { "hash-prefix".into() } else if h.len() > 32 { "hash-extended".into() } else { "hash-same".into() }; }
                11 => { // non-canonical DER encodings of the genuine (r, s)
                        let v = rng.below(5);
                        let mut d = der.clone();
                        match v {
                            0 => { d.push(0); }                                             // trailing byte, length not adjusted
                            1 => { d.push(0); d[1] += 1; }                                  // trailing byte inside the sequence
                            2 => { let mut c = vec![2u8, 33 + (rs[0] >= 0x80) as u8, 0]; if rs[0] >= 0x80 { c.push(0) } c.extend(&rs[..32]); c.extend(der_int(&rs[32..])); d = vec![0x30, c.len() as u8]; d.extend(c); } // extra leading zero on r
                            3 => { let c = d[2..].to_vec(); d = vec![0x30, 0x81, c.len() as u8]; d.extend(c); } // long-form length
                            _ => { d[0] = 0x31; }                                           // wrong tag
                        }
                        text = format!("{}:{}", hex::encode(&d), hex::encode(&hash)); tag = format!("der-noncanonical-{}", v); }
                12 => { let s2 = sub_be(&N_ORDER, &rs[32..]); text = format!("{}:{}", hex::encode(der_sig(&rs[..32], &s2)), hex::encode(&hash)); tag = "high-s-twin".into(); }
                13 => { let v = rng.below(4); let (r2, s2): (Vec<u8>, Vec<u8>) = match v { 0 => (vec![0], rs[32..].to_vec()), 1 => (rs[..32].to_vec(), vec![0]), 2 => (N_ORDER.to_vec(), rs[32..].to_vec()), _ => (rs[..32].to_vec(), N_ORDER.to_vec()) };
                        text = format!("{}:{}", hex::encode(der_sig(&r2, &s2)), hex::encode(&hash)); tag = format!("scalar-range-{}", v); }
                14 => { text = format!("{}:{}", hex::encode_upper(&der), hex::encode_upper(&hash)); tag = "uppercase-hex".into(); }
                15 => { let alphabet: &[u8] = b"\"\"W/::ab01 \tzZ"; let k = rng.below(12) as usize; let v: Vec<u8> = (0..k).map(|_| *rng.pick(alphabet)).collect(); raw_override = Some(Some(v)); tag = "random-ascii-etag".into(); }
                16 => { let mut v = enc(rng, good_text.clone()); let i = rng.below(v.len() as u64) as usize; v[i] = 0x80 + rng.below(128) as u8; raw_override = Some(Some(v)); tag = "non-ascii-header".into(); }
                17 => { raw_override = Some(None); tag = "absent-header".into(); }
                18 => { let v = rng.below(4); text = match v { 0 => format!("{}0:{}", hex::encode(&der), hex::encode(&hash)), 1 => format!("{}:{}0", hex::encode(&der), hex::encode(&hash)),
                        2 => format!("{}zz:{}", hex::encode(&der), hex::encode(&hash)), _ => format!("{}:zz{}", hex::encode(&der), hex::encode(&hash)) }; tag = format!("bad-hex-{}", v); }
                19 => { text = format!("{}:{}:{}", hex::encode(&der), hex::encode(&hash), "00"); tag = "extra-colon".into(); }
                20 => { // replace the registered key for kid by appending a duplicate id with another key (last wins)
                        let other = (signer + 1) % 4; q_keys = format!("{},{}:{}:{}", keys_tok, kid, pks[other].0, pks[other].1); tag = "duplicate-id-last-wins".into(); }
                _ => { text = format!("{}:{}", hex::encode(&hash), hex::encode(&der)); tag = "swapped-parts".into(); }
            }
            let raw: Option<Vec<u8>> = match raw_override { Some(r) => r, None => Some(enc(rng, text)) };
            if let Some(r) = &raw { if http::HeaderValue::from_bytes(r).is_err() { continue; } }
            let l = line(&q_keys, q_kid, &q_nonce, &q_req, &q_resp, raw.as_deref());
            if q_keys == keys_tok && rng.chance(1, 3) {
                // the same attempt on a handler that has just accepted the authentic exchange (or, half the time, the
                // other way round: the authentic exchange after the forged one)
                let good = line(&keys_tok, kid, &nonce, &req, &resp, Some(good_text.as_bytes()));
                let first_good = rng.chance(1, 2);
                let w = if first_good { format!("warm {} {}", good, l) } else { format!("warm {} {}", l, good) };
                let encb = raw.as_ref().and_then(|r| r.first().copied()).map(|b| match b { b'"' => "q", b'W' => "w", _ => "p" }).unwrap_or("-");
                push(&mut sink, w, format!("warm-{}/{}/{}", if first_good { "after-authentic" } else { "then-authentic" }, tag, encb), &format!("warm-{}", tag));
            }
            // class: mutation kind x first byte of the raw header (encoding)
            let encb = raw.as_ref().and_then(|r| r.first().copied()).map(|b| match b { b'"' => "q", b'W' => "w", _ => "p" }).unwrap_or("-");
            push(&mut sink, l, format!("{}/{}", tag, encb), &tag);
        }
        prev = Some((good_text, ex));
    }
    // pure DER stream
    let nder = if o.thorough { 20000 } else { 1500 };
    for _ in 0..nder {
        let rl = rng.below(35) as usize; let sl = rng.below(35) as usize;
        let mut r = rng.bytes(rl); let mut s = rng.bytes(sl);
        if rng.chance(1, 3) && !r.is_empty() { r[0] = *rng.pick(&[0u8, 0x7f, 0x80, 1]); }
        if rng.chance(1, 3) && !s.is_empty() { s[0] = *rng.pick(&[0u8, 0x7f, 0x80, 1]); }
        let mut d = if rng.chance(2, 3) { der_sig(&r, &s) } else {
            let mut c = vec![2u8, r.len() as u8]; c.extend(&r); c.push(2); c.push(s.len() as u8); c.extend(&s);
            let mut o = vec![0x30u8, c.len() as u8]; o.extend(c); o };
        if rng.chance(1, 5) && !d.is_empty() { let i = rng.below(d.len() as u64) as usize; d[i] = rng.next() as u8; }
        if rng.chance(1, 10) { let k = rng.below(d.len() as u64 + 1) as usize; d.truncate(k); }
        push(&mut sink, format!("der {}", hexb(&d)), format!("der/{}/{}", rl.min(34), sl.min(34)), "der");
    }
    let _ = prev.map(|(_, e)| (e.req, e.resp, e.nonce, e.kid, e.sig_rs));
    sink
}
